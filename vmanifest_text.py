HOOK_COMMITS = ["3b27975"]

NOT_APPLICABLE = {}

TEXT = {
 "C01": {
  "technique": "deterministic simulation: real sorter+ingest worker pool under a seeded store-op scheduler in a synctest bubble, vs sort+dedupe reference model",
  "level_text": "Seeded exploration: generated CSVs (quoting/collision alphabet, boundary row counts, duplicate/empty keys, cells up to and over 65535 bytes, rows over 64 KiB) x delimiter x spill size x worker count x store-operation schedule, each run compared cell-for-cell with an independent encoding/csv parse + sort/dedupe model, plus the C03 structural checker and the C06 write monitor. Sampling, not enumeration.",
  "level_note": "Trusted: encoding/csv as the definition of the CSV's rows; meow and s2 (part of the format); the in-memory store stands in for Badger.",
 },
}
