HOOK_COMMITS = ["3b27975", "5a44400", "0d90624"]

NOT_APPLICABLE = {}

_T = "Trusted: encoding/csv as the definition of a CSV's rows; meow and s2 (part of the format); the in-memory objects.Store standing in for Badger; go1.26.8 instead of the baseline's go1.23.5."

TEXT = {
 "C01": {
  "technique": "deterministic simulation: real sorter + ingest worker pool under a seeded store-op scheduler in a synctest bubble, vs a sort+dedupe reference model; the in-process CLI (commit/export, a quarter of the cases on the real Badger store; branch-file sequences with simulated mtimes); spill files cut while the ingest runs",
  "level_text": "Seeded exploration: generated CSVs (quoting/collision alphabet, boundary row counts, duplicate/empty keys, cells up to and over 65535 bytes, rows over 64 KiB) x delimiter x spill size x worker count x store-operation schedule, each run compared cell-for-cell with an independent encoding/csv parse + sort/dedupe model, plus the C03 structural checker and the C06 write monitor. Sampling, not enumeration.",
  "level_note": _T,
 },
 "C04": {
  "technique": "reference-model conformance inside the simulator (seeded table-pair generator, map-by-key diff model, process isolation, shrinking); scheduler and fault injector add nothing for this pure function",
  "level_text": "Seeded exploration of table pairs derived by edit scripts (edits at block edges, nested ranges, empty side, keyless, composite keys, 0-4 blocks, one or two stores); every diff event, its offsets (through BlockBuffer and raw decode), self-diff and argument-swap symmetry are checked against a map-by-key model. Later additions: duplicate CSV lines at block edges, tables handed over without their Sum field, a small sample against a 9000-14000-row table (one block spanning dozens), one transient read error per case. Wave 8: tables ingested by 2-14 block workers under the seeded scheduler.",
  "level_note": _T + " BlockBuffer size comes from /proc/meminfo and never evicts here.",
 },
 "C07": {
  "technique": "deterministic simulation: real ObjectSender -> packfile -> seeded chunking reader -> real ObjectReceiver between two simulated stores, byte-identity + C03 + empty-diff oracle, adversarial object orders",
  "level_text": "Seeded exploration over source histories with shared blocks, destinations pre-populated with ancestor-closed commit subsets (with/without tables) and lone objects, tips, table depth, max packfile size from 1 byte, and read partitions of every packfile; plus reordered packfiles that the receiver must refuse without leaving the object behind. Later additions: child-first streams under three want lists; read errors of the sender's store while the packfiles are built (gives up, refused, or exact).",
  "level_note": _T,
 },
 "C08": {
  "technique": "two-party protocol simulation: real ClosedSetsFinder.Process driven round by round with generated have batches, checked against a graph model with a store-read step budget",
  "level_text": "Seeded exploration of server DAGs (<=48 commits incl. diamond chains, several roots, skewed/equal/reversed timestamps), ref tips, want sets, multi-round have batches with unknown hashes, depth 0-3 and shallow commits; closure, parent-first order, reachability, depth-limited table selection, refusal of unreachable wants and a polynomial read budget are checked; each case is repeated because Go map order inside the finder is not seedable. Later additions: ladder-shaped histories (paths double per level) with a read budget linear in the history per have/want/ref; a refused request repeated on the same finder.",
  "level_note": _T + " The client side of the rounds is a generic generated client here; the real client sessions run in C09.",
 },
 "C11": {
  "technique": "deterministic simulation with clock faults: histories authored under skewed / tied / reversed / backward-jumping timestamps, real IsAncestorOf / CommitsQueue walk / SeekCommonAncestor vs graph reachability model with a step budget",
  "level_text": "Seeded exploration of DAGs up to 30 commits x 6 timestamp regimes; all ordered pairs for the ancestor test, a full walk from every commit, and 40 sampled 2-4-tuples per graph for the merge base. Graph shapes are sampled, not enumerated. Later additions: ladder graphs, commits listing a parent twice, sampled queries re-run with one commit read failing (an error or the right answer). Wave 8: faulted queries fail a get, an existence test or any read.",
  "level_note": _T,
 },
 "C15": {
  "technique": "reference-model conformance of the real SQL ref store on a real SQLite file, with reopen as an operation and statement-level SQL fault injection through a database/sql driver wrapper",
  "level_text": "Seeded exploration of operation sequences (<=40) over a hostile name alphabet; every return value and, after every step, a full dump of refs and logs is compared with a map + per-name log model; injected SQL statement failures check that each method is atomic. Later additions: reflogs of 2-320 entries (paged readers); profile C15fs covers the file store. Wave 8: multi-byte names; SQL failures (statements and row steps of scans, which surface only in rows.Err()) also in reads, listings and bulk operations.",
  "level_note": _T + " SQLite itself is trusted.",
 },
 "C16": {
  "technique": "deterministic simulation under the race detector: callers park at the objects.Store seam inside a synctest bubble, a seeded scheduler releases one at a time, harness synchronisation is hidden from the race runtime so happens-before comes from wrgl's own synchronisation only",
  "level_text": "Seeded exploration, one OS process per case built with -race: multi-block tables x 3-16 workers x spill sizes x store-op schedules x 0-2 injected store errors; verdicts: data race in /repo frames, outcome equal to the 1-worker run, deadlock (synctest), panic, error propagation. Interleavings are sampled at store-operation granularity; data races are decided by happens-before and so do not depend on the sampled order. Later additions: the diff and merge pipelines under the same regime, sticky store errors, a merge consumer that asks for the columns right after the first message; a real-time watchdog with a zero-progress condition reports livelocks as class hang.",
  "level_note": _T + " Goroutines made runnable together inside one scheduler step are ordered by the Go runtime.",
 },
 "C18": {
  "technique": "deterministic simulation of the transport: every decoder is run over a seeded partition of the byte stream (1-byte, header-straddling, random cuts, data+EOF) and compared with whole-buffer decoding",
  "level_text": "Seeded exploration: 9 stream kinds (packfiles with objects at varint-boundary sizes, pkt-lines, commit, table, block, block index, profile, string list, uint list) x read partitions; identical decoded values, byte counts and end-of-stream condition required. Later additions: zero-length reads, objects beyond 1 MiB (4 MiB thorough) followed by further objects, 4 KiB / 32 KiB partitions.",
  "level_note": _T,
 },
 "C19": {
  "technique": "knob-randomised reference-model conformance of the real external sorter (run size 1..inf, removed-column sets, three feed paths) with a per-run temp directory observed for leftover spill files",
  "level_text": "Seeded exploration of row multisets (duplicate keys across spill files, composite keys with tying first component, keyless) x run sizes forcing 0..k spill files x removed columns before/after the key; both outputs compared with a sort+dedupe model and with each other; temp dir must be empty after Close. Later additions: spill files truncated inside a row (an error, or a complete output), a file-size limit while spilling (error and no file left behind), the sorter used again after Close / Reset.",
  "level_note": _T,
 },
 "C20": {
  "technique": "reference-model conformance of index.HashSet over a simulated file (os.File semantics, reopen) with on-file invariants checked after every flush",
  "level_text": "Seeded exploration of Add/Flush/Has/Len/reopen sequences (<=200) over a 65-hash space with first bytes 00,01,7f,fe,ff and batch sizes 1..8/default; membership, Len, sortedness and fan-out consistency checked against a Go map after every flush and reopen; thorough tier also uses a real temp file. Later additions: sets of 4200-11000 entries receiving small batches, reopen through a handle positioned at the end or through the same handle, transient read errors during Add / Has with retry. Wave 8: 200-690 new hashes sharing one first byte in a single flush; read errors inside Flush before its first write, flushed again.",
  "level_note": _T,
 },
 "C02": {
  "technique": "metamorphic deterministic simulation: one logical table ingested under two seeded presentations (row order, delimiter, spill size, worker count, store-op schedule, store instance) must get one identifier; one mutation must change it; CLI re-commit must report no change",
  "level_text": "Seeded exploration of presentation pairs through the real sorter + ingest worker pool under the parking scheduler, plus the in-process CLI path (commit --set-file, rewrite permuted, commit again) with the file mtime set before/after the simulated commit time. Later additions: a file-size limit (RLIMIT_FSIZE) as a full disk while one presentation spills (refused, or the same identifier); two sorters alive at once in one process; prefix-related composite keys; multi-byte delimiters. Wave 8: the same key columns in another order as a single mutation.",
  "level_note": _T,
 },
 "C05": {
  "technique": "deterministic simulation of merge.Merger + RowCollector + hash set (simulated file) + sorter + ingest, driven as the CLI drives them, against scenarios whose result is known by construction",
  "level_text": "Seeded exploration of constructive 3-way merge scenarios (key column anywhere or none, 1-3 blocks, 2-3 branches; one branch = base, identical branches, disjoint edits, declared same-cell and remove-vs-modify conflicts; column add/remove/move/rename; branch order permuted; hash-set batch 1..default; blocks or rows output). Differ/merger interleaving is left to the Go runtime (the merger busy-polls), the oracle is order-independent. Later additions: column adds in two branches, a branch or the base declaring the key in another order (refused or right), columns swapped by name with unchanged row bytes, add-add conflicts with an empty cell; profile C05cli drives `wrgl merge` for ahead / behind / equal / diverged histories under every fast-forward mode with store read errors; profile C05col covers a row added by both branches next to a column added by one, and a column of the same name added by both with agreeing or differing cells.",
  "level_note": _T + " Scenarios with a column change in one branch and a row removal in another are excluded (the resolver reports them as conflicts, which the statement permits).",
 },
 "C13": {
  "technique": "fault enumeration in the simulator: the global write log (object store + real SQLite ref store snapshots) of each operation is recorded, every prefix is materialised as a crash state, reopened, checked and the operation re-run; plus a failure injected at every write position (once, and sticky = disk full)",
  "level_text": "For every generated case ALL crash points of the executed operation are enumerated (exhaustive over the write sequence of that run, sampled over inputs): commit to an existing/new branch (incl. multi-worker ingest under the seeded scheduler), merge fast-forward / --no-ff / 3-way, prune; invariants I1-I4 on every state and equivalence (tables + history shape) of the re-run with the uninterrupted run. Later additions: fetch and pull against the reference server are prefix-enumerated like the others; mode sqlerror fails every SQL statement of the ref store once; refusal of merges onto commits without their table; `wrgl prune` on every crash state before the re-run. Wave 8: SQL fault points include the row steps of scans.",
  "level_note": _T + " Crash = process death between two store writes (completed writes survive); torn writes inside one Set / one SQL transaction are not modelled (Badger and SQLite are trusted to be atomic per call).",
 },
 "C14": {
  "technique": "fault enumeration in the simulator over `wrgl transaction commit|discard`: crash after every write prefix and failure at every object-store/ref-store write, re-run, plus double-commit / discard-after-commit sequences",
  "level_text": "Transactions staging 1-4 new/existing branches through the in-process CLI; every crash point and every single write failure of commit and discard is enumerated per case; oracle: every branch untouched with the transaction in progress, or completable by re-running to exactly one new commit per branch carrying the staged table, committed status and one tagged reflog entry per branch; never two commits ahead; committed transactions refuse commit and discard. Later additions: mode sqlerror (every SQL statement fails once), an ordinary commit between the interrupted run and the re-run, a staged branch that moved (other or identical data) before the transaction is committed. Wave 8: SQL fault points include the row steps of scans.",
  "level_note": _T,
 },
 "C09": {
  "technique": "multi-node deterministic simulation: client repositories and a remote in one process, every wrgl command an in-process CLI process in its own synctest bubble (per-node clocks), real client sessions / fetch / push / pull over a simulated network (simnet RoundTripper with chunking and injected loss, duplication, 5xx, stream errors, server restarts, delays) against a reference server assembled from wrgl's own finder/sender/receiver",
  "level_text": "Seeded exploration of 6-17-operation histories on three nodes x server knobs (table-negotiation batch, max packfile size) x client pack size x response chunking; fault-free profile: closure, tables within depth, byte-identical objects, I1-I4 on all nodes after every operation, immediate repeat transfers nothing; fault profile: an operation may fail, success implies the postcondition, failures leave I1-I4 intact, and after the last fault one more fetch succeeds within a request budget (push back-off and delays run on the fake clock). Later additions: SQL statement errors (hook H3), object-store errors on either side, op-relative network faults, 404 plain-text replies, leftovers of an interrupted transfer, tags-only forced fetches, `pull --all` / `push --all`, branches of 257-520 tables, and `unexpected-failure` for operations that fail without an injected fault. Wave 8: merges with arms of different lengths on the remote fetched at depth 2-4 (op diamond); profile C09two with two reference servers (a depth-limited copy of R's branch pushed to R2 after the remote origin was kept, removed or renamed).",
  "level_note": _T + " The remote's HTTP glue (routing, sessions, ref compare-and-swap, policy) is a harness stub written from the client's expectations (DESIGN 2.5.1); only client-side code under /repo is judged. A commit that was already present without its table (earlier --depth fetch) staying shallow after a full fetch is wrgl's documented behaviour (`wrgl fetch tables`) and is reported as class table-missing-previously-shallow, which this check does not count.",
 },
 "C10": {
  "technique": "monitor over the multi-node deterministic simulation: every ref transition is recorded at the ref-store seam (SimRef) and every receive-pack request at the server seam, and judged against ancestry computed independently from the raw commit objects",
  "level_text": "Seeded exploration biased towards diverged local/remote histories, skewed node clocks (descendants older than ancestors), tags moved on the remote, --force / +refspec / --ff / --no-ff / --ff-only; checks: non-forced moves go to descendants only, tags never clobbered, rejections reported with the ref untouched, fast-forward lands exactly on the other commit, reflog entries carry the true old/new, pushes never ask for a non-fast-forward or tag move without force. Later additions: BRANCH spelled as heads/x, refs/heads/x, x~0, x^, or by the last segment of a nested name; true fast-forward blocks; refspecs into tags/, heads/, remotes/backup/, mirror/; two refs on one tip; SQL statement errors during client operations.",
  "level_note": _T + " Remote-tracking refs are updated through the '+refs/heads/*:refs/remotes/origin/*' refspec that `wrgl remote add` configures, i.e. explicitly forced, as in git.",
 },
 "C12": {
  "technique": "deterministic simulation of prune (library and in-process CLI prune/gc) on generated repositories against a reachability model computed from the raw store",
  "level_text": "Seeded exploration: commit DAG <=16 over tables sharing blocks, refs of every kind (heads, tags, remote-tracking, open-transaction refs, custom), shallow commits whose table was never fetched, a random subset of refs deleted, prune run twice; reachable commits keep commit/table/index/profile/blocks/block indices byte-identical and sound, unreachable commits and the tables/blocks referenced only by them are gone, second prune writes nothing, no panic. Crash-during-prune is enumerated under C13. Later additions: store-op errors during the first prune (reachable objects survive whatever it returns; one more fault-free prune completes), damaged repositories in which listed blocks are absent.",
  "level_note": _T + " Garbage that no commit or removed table references (e.g. blocks left by a failed ingest) is outside the statement and not judged.",
 },
 "C17": {
  "technique": "corruption as a fault at the disk and wire seams of the simulator: stored values / packfiles / encoded streams are bit-flipped, truncated, given inflated counts or wrong labels and read through every reader; replies of the simulated remote are truncated or bit-flipped during real fetch/pull/push; panic, hang and allocation are observed per call",
  "level_text": "Seeded, structure-aware corruption (not coverage-guided fuzzing): one corruption per case of one stored object of a real generated repository (raw or inside the s2 frame), of a real packfile fed to ObjectReceiver.Receive, or of one of 9 encoded stream kinds; plus the multi-node run with corrupted replies. Oracle: returns, no panic in any goroutine (goroutine panics kill the worker and are attributed to the seed), allocation <= 64 x input + 16 MiB, stored objects after a rejected packfile are keyed by their hash, decodable and pass I1-I3, success of a command implies the C09 postcondition. Later additions: kind forged (well-formed, correctly hashed objects that contradict each other; 16-byte time fields and over-long object headers no mutation reaches); hostile but well-formed JSON replies, empty packfiles for ever (request budget), 404 plain text during `pull --all` / `push --all`. Wave 8: forged tables naming a block index the destination already holds.",
  "level_note": _T + " Open finding C17-s2-block-length (s2.Decode allocates the announced block length) is classified separately and printed as KNOWN-FINDING.",
 },
 "C03": {
  "technique": "monitor + own profile in the deterministic simulator: an independent structural checker (block sizes, key order, recomputed block indices, table index, hash keys) runs on every table produced by ingest (seeded worker schedule), merge commit, wire receipt and doctor resolve, together with the repository's own doctor.Diagnose",
  "level_text": "Seeded exploration at boundary sizes (0,1,2,254,255,256,509,510,511,765,766 rows; keyed/keyless; all-empty row) x four producers; the same checker is also evaluated as a monitor in the C01, C02, C05, C06, C07, C09, C13 and C16 runs. Later additions: composite keys in any declared order, one table of more than 1024 blocks per 1000 seeds, duplicate CSV lines at block edges, the same rows re-committed under another key, a receipt interrupted at the table object, pruned and repeated.",
  "level_note": _T,
 },
 "C06": {
  "technique": "write monitor at the simulated object store (key = hash of canonical bytes, decode, re-encode = stored bytes, same key => same bytes) active in every profile, plus an own profile driving field extremes through the in-process CLI with simulated clocks and zones, and the packfile length header through hook H2",
  "level_text": "Seeded exploration of message/name/email lengths 0..70000, node clocks up to year 2262 (limit of the synctest clock) and library-level times up to year 9999 and before year 1, zone offsets incl. half hours and seconds, rows crossing 64 KiB, 1..256 rows; packfile header round trip over all varint boundaries, 32-bit and sampled 64-bit lengths (sampled, not every 32-bit length). Oracle: error at write time with the branch untouched, or read back equal. Later additions: library-level tables of up to 5000 block sums; table profiles with NaN / infinite / extreme float statistics. Wave 8: block indices computed from stored bytes vs from decoded rows for every order of 0-4 key columns.",
  "level_note": _T + " Exhaustive enumeration of all 32-bit lengths is model checking and is not attempted.",
 },
}
