#!/bin/bash
# usage: confirm_mutant.sh <mutant dir> <worktree>
# Confirms in a scratch worktree that a seeded change applies, builds, passes the existing suite,
# and that its demonstration fails with the change and passes without it.
set -u
M=$1; WT=$2
export GOFLAGS=-mod=mod GOPROXY=off GOSUMDB=off GOTOOLCHAIN=local
cd "$WT" || exit 2
git checkout -q -- . ; git clean -fdq
COPY_TO=$(python3 -c "import json;print(json.load(open('$M/meta.json'))['demo']['copy_to'])")
RUN=$(python3 -c "import json;print(json.load(open('$M/meta.json'))['demo']['run'])")
DEMO=$(ls $M | grep -v 'patch.diff\|meta.json' | head -1)
echo "== demo file $DEMO -> $COPY_TO ; run: $RUN"
cp "$M/$DEMO" "$WT/$COPY_TO/" || exit 2
echo "== without change (must pass)"
( cd "$WT" && eval "$RUN" ) > /tmp/confirm_clean.log 2>&1; RC_CLEAN=$?
git apply "$M/patch.diff" || { echo "PATCH DOES NOT APPLY"; exit 2; }
echo "== with change (must fail)"
( cd "$WT" && eval "$RUN" ) > /tmp/confirm_mut.log 2>&1; RC_MUT=$?
rm -f "$WT/$COPY_TO/$DEMO"
echo "== build + existing suite with change (must pass)"
go build ./... > /tmp/confirm_build.log 2>&1; RC_BUILD=$?
go test -vet=off -count=1 ./... > /tmp/confirm_suite.log 2>&1; RC_SUITE=$?
git checkout -q -- . ; git clean -fdq
echo "RESULT clean_demo_rc=$RC_CLEAN mutant_demo_rc=$RC_MUT build_rc=$RC_BUILD suite_rc=$RC_SUITE"
if [ $RC_CLEAN -eq 0 ] && [ $RC_MUT -ne 0 ] && [ $RC_BUILD -eq 0 ] && [ $RC_SUITE -eq 0 ]; then echo CONFIRMED; exit 0; fi
grep -h "FAIL\|panic" /tmp/confirm_suite.log | head -5
exit 1
