package sim

// C02: a table's identifier depends only on its logical content (metamorphic).

import (
	"bytes"
	"context"
	"encoding/json"
	"errors"
	"fmt"
	"github.com/go-logr/logr"
	"github.com/wrgl/wrgl/pkg/ingest"
	"github.com/wrgl/wrgl/pkg/sorter"
	"io"
	"os"
	"strings"
	"syscall"
	"testing"
	"time"
)

type Presentation struct {
	Perm uint64    `json:"perm"` // seed of the row permutation
	Cfg  IngestCfg `json:"cfg"`
	Own  bool      `json:"own_store"` // ingest into a separate store ("another machine")
}

type C02Plan struct {
	Kind     string       `json:"kind"` // lib | cli
	Table    TableSpec    `json:"table"`
	A        Presentation `json:"a"`
	B        Presentation `json:"b"`
	Mutation string       `json:"mutation"` // cell | colname | swapcols | pk | pkorder | none
	MutRow   int          `json:"mut_row"`
	MutCol   int          `json:"mut_col"`
	OldMtime bool         `json:"old_mtime"` // cli: set the rewritten file's mtime before the commit time
	// Interleave (lib): both presentations are sorted (and spilled) by two sorters that are alive at the same
	// time in one process, then each is ingested: the identifiers must be what each gets alone
	Interleave bool `json:"interleave,omitempty"`
}

func genPresentation(r *Rand) Presentation {
	return Presentation{Perm: r.Uint64(), Cfg: genIngestCfg(r), Own: r.Chance(0.4)}
}

func init() {
	Register(&Profile{
		ID: "C02", Prop: "C02",
		Rule: "one logical table (unique keys) under two presentations (row permutation x delimiter x run size x worker count x store-op schedule x same/other store) must get one identifier and add no object on re-ingest; exactly one mutation (cell / column name / column swap / key / order of the key columns) must change it; CLI variant: commit --set-file, rewrite the file permuted, commit again => 'hasn't changed', ref and reflog untouched (file mtime before/after the fake commit time); non-trivial = >=3 rows and presentations differ in >=2 knobs; distinct by plan hash",
		Gen: func(seed uint64, tier string) any {
			r := NewRand(seed)
			p := C02Plan{Kind: "lib"}
			if r.Chance(0.2) {
				p.Kind = "cli"
			}
			p.Table = GenTable(r.Sub("data"), GenOpts{MaxRows: 700, AllowNoPK: true, UniqueKeys: true, BigCells: r.Chance(0.1), SimpleOnly: p.Kind == "cli"})
			p.A, p.B = genPresentation(r.Sub("a")), genPresentation(r.Sub("b"))
			if p.Kind == "lib" && r.Chance(0.15) {
				// presentation B spills and meets a full disk part-way: an error, or the same identifier
				p.B.Cfg.RunSize = Pick(r, []uint64{1, 64, 512, 4096})
				p.B.Cfg.FsizeLimit = Pick(r, []uint64{1, 7, 60, 300, 1000, 4000, 20000})
			}
			p.Mutation = Pick(r, []string{"cell", "cell", "colname", "swapcols", "pk", "pkorder", "none"})
			p.MutRow, p.MutCol = r.Intn(1000), r.Intn(8)
			p.OldMtime = r.Chance(0.5)
			p.Interleave = p.Kind == "lib" && r.Chance(0.2)
			return p
		},
		Exec: execC02,
	})
}

func permuteRows(rows [][]string, seed uint64) [][]string {
	out := append([][]string(nil), rows...)
	r := NewRand(seed)
	for i := len(out) - 1; i > 0; i-- {
		j := r.Intn(i + 1)
		out[i], out[j] = out[j], out[i]
	}
	return out
}

func execC02(t *testing.T, raw json.RawMessage, res *Result) {
	var p C02Plan
	if err := json.Unmarshal(raw, &p); err != nil {
		res.Invalid("plan: %v", err)
		return
	}
	if err := p.Table.Validate(); err != nil {
		res.Invalid("plan: %v", err)
		return
	}
	for _, pr := range []Presentation{p.A, p.B} {
		if _, err := delimRune(pr.Cfg.Delim); err != nil || pr.Cfg.Workers < 0 || pr.Cfg.Workers > 64 {
			res.Invalid("cfg")
			return
		}
	}
	cols, rows := p.Table.Materialise()
	pkNames := make([]string, len(p.Table.PK))
	for i, s := range p.Table.PK {
		pkNames[i] = ToBytes(s)
	}
	rows = NormaliseCSV(cols, DedupeByKey(cols, pkNames, rows))
	if maxCellLen(rows) > 65535 {
		res.Invalid("oversize")
		return
	}
	if p.Kind == "cli" {
		execC02CLI(t, &p, cols, pkNames, rows, res)
		return
	}
	w := &World{}
	stA := NewStore("A", w)
	stB := stA
	if p.B.Own {
		stB = NewStore("B", w)
	}
	da, _ := delimRune(p.A.Cfg.Delim)
	db, _ := delimRune(p.B.Cfg.Delim)
	ra := RunIngest(t, stA, CSVText(cols, permuteRows(rows, p.A.Perm), da), pkNames, p.A.Cfg)
	if bubbleProblems(res, ra.Out, "ingest A") {
		return
	}
	if ra.Err != nil {
		res.Violate("ingest-error", "A: %v", ra.Err)
		return
	}
	before := len(stB.Keys(""))
	rb := RunIngest(t, stB, CSVText(cols, permuteRows(rows, p.B.Perm), db), pkNames, p.B.Cfg)
	if bubbleProblems(res, rb.Out, "ingest B") {
		return
	}
	if rb.Err != nil {
		if rb.FsizeArmed && isFileTooLarge(rb.Err) {
			// the disk-full stand-in hit a spill file: refusing the commit is the right answer
			res.fault("spill_write_error", 1)
			res.probe("spill_write_error_reported", 1)
			res.Nontrivial = true
			return
		}
		res.Violate("ingest-error", "B: %v", rb.Err)
		return
	}
	if rb.FsizeArmed {
		res.probe("fsize_limit_not_reached", 1)
	}
	res.stat("sim_steps", float64(ra.Sched.Steps+rb.Sched.Steps))
	res.hashOf(fmt.Sprintf("sched:%x/%x", ra.Sched.Hash(), rb.Sched.Hash()))
	if !bytes.Equal(ra.Sum, rb.Sum) {
		res.Violate("identity-differs", "same logical table, two presentations (A %+v, B %+v): ids %x vs %x", p.A.Cfg, p.B.Cfg, ra.Sum, rb.Sum)
		return
	}
	if !p.B.Own {
		if after := len(stB.Keys("")); after != before {
			res.Violate("reingest-adds-objects", "re-ingesting the same table into the same store added %d objects", after-before)
			return
		}
	}
	if p.Interleave && p.B.Cfg.FsizeLimit == 0 {
		sums, err := interleavedIngest(stA, [][]byte{CSVText(cols, permuteRows(rows, p.A.Perm), da), CSVText(cols, permuteRows(rows, p.B.Perm), db)}, pkNames, []IngestCfg{p.A.Cfg, p.B.Cfg})
		if err != nil {
			res.Violate("ingest-error", "two sorters alive at once: %v", err)
			return
		}
		for i, sm := range sums {
			if !bytes.Equal(sm, ra.Sum) {
				res.Violate("identity-differs", "presentation %d sorted while another sorter of the same process held its spill files: id %x, alone %x", i, sm, ra.Sum)
				return
			}
		}
		if n := countTmp(); n > 0 {
			res.Violate("spill-file-left", "%d files left in TMPDIR after both sorters were closed", n)
			return
		}
		res.probe("two_sorters_alive_at_once", 1)
	}
	// one mutation must change the identifier
	mcols := append([]string(nil), cols...)
	mpk := append([]string(nil), pkNames...)
	mrows := make([][]string, len(rows))
	for i := range rows {
		mrows[i] = append([]string(nil), rows[i]...)
	}
	mutated := false
	switch p.Mutation {
	case "cell":
		if len(rows) > 0 {
			i, j := p.MutRow%len(rows), p.MutCol%len(cols)
			if len(mrows[i][j]) >= 65535 {
				mrows[i][j] = "~" + mrows[i][j][1:]
				if mrows[i][j] == rows[i][j] {
					mrows[i][j] = "!" + mrows[i][j][1:]
				}
			} else {
				mrows[i][j] += "~"
			}
			mrows = DedupeByKey(mcols, mpk, mrows)
			mutated = len(mrows) == len(rows)
		}
	case "colname":
		j := p.MutCol % len(cols)
		old := mcols[j]
		mcols[j] = old + "_x"
		for k := range mpk {
			if mpk[k] == old {
				mpk[k] = mcols[j]
			}
		}
		mutated = true
	case "swapcols":
		if len(cols) >= 2 {
			j := p.MutCol % (len(cols) - 1)
			mcols[j], mcols[j+1] = mcols[j+1], mcols[j]
			for i := range mrows {
				mrows[i][j], mrows[i][j+1] = mrows[i][j+1], mrows[i][j]
			}
			mutated = true
		}
	case "pk":
		if len(mpk) > 0 {
			mpk = mpk[:len(mpk)-1] // drop one key column (or the key altogether)
			mrows = DedupeByKey(mcols, mpk, mrows)
		} else {
			mpk = []string{mcols[p.MutCol%len(mcols)]}
			mrows = DedupeByKey(mcols, mpk, mrows)
		}
		mutated = true
	case "pkorder":
		// the same key columns listed in another order are another key (rows sort differently, Table.PK differs)
		if len(mpk) >= 2 {
			mpk = append(mpk[1:len(mpk):len(mpk)], mpk[0])
			mutated = true
			res.probe("key_order_mutation", 1)
		}
	}
	if mutated {
		mrows = NormaliseCSV(mcols, mrows)
		rm := RunIngest(t, NewStore("M", w), CSVText(mcols, mrows, ','), mpk, IngestCfg{Delim: ",", Workers: 1})
		if bubbleProblems(res, rm.Out, "ingest M") {
			return
		}
		if rm.Err != nil {
			res.Violate("ingest-error", "mutant: %v", rm.Err)
			return
		}
		if bytes.Equal(rm.Sum, ra.Sum) {
			res.Violate("identity-collides", "tables differing by one %s mutation got the same id %x", p.Mutation, ra.Sum)
			return
		}
	}
	knobs := 0
	if p.A.Cfg.Delim != p.B.Cfg.Delim {
		knobs++
	}
	if p.A.Cfg.RunSize != p.B.Cfg.RunSize {
		knobs++
	}
	if p.A.Cfg.Workers != p.B.Cfg.Workers {
		knobs++
	}
	if p.B.Own {
		knobs++
	}
	if len(rows) > 255 && (p.A.Cfg.Workers >= 4 || p.B.Cfg.Workers >= 4) {
		res.probe("multi_worker_multi_block", 1)
	}
	res.Nontrivial = len(rows) >= 3 && knobs >= 2
}

func execC02CLI(t *testing.T, p *C02Plan, cols, pk []string, rows [][]string, res *Result) {
	for _, c := range append(append([]string{}, cols...), pk...) {
		if strings.ContainsAny(c, ",\"\n") {
			res.Skip("column names with CSV metacharacters cannot be passed through --primary-key")
			return
		}
	}
	w := &World{}
	n, err := NewNode(t, "L", w)
	if err != nil {
		res.Invalid("node: %v", err)
		return
	}
	defer n.Close()
	n.Clock = 48 * time.Hour
	file := n.WriteFile("data.csv", CSVText(cols, permuteRows(rows, p.A.Perm), ','))
	args := []string{"commit", "main", file, "first", "--set-file", "--set-primary-key", "-n", fmt.Sprint(p.A.Cfg.Workers)}
	if len(pk) > 0 {
		args = append(args, "-p", strings.Join(pk, ","))
	}
	r1 := n.Run(t, args...)
	if bubbleProblems(res, r1.Out, "wrgl commit") {
		return
	}
	if r1.Err != nil {
		res.Violate("commit-error", "first commit failed: %v %s", r1.Err, r1.Stdout)
		return
	}
	refs1, _ := n.Refs()
	logLen := func() int {
		db, err := n.OpenRef()
		if err != nil {
			return -1
		}
		defer db.Close()
		lr, err := db.LogReader("heads/main")
		if err != nil {
			return 0
		}
		k := 0
		for {
			if _, err := lr.Read(); err != nil {
				break
			}
			k++
		}
		return k
	}
	l1 := logLen()
	// rewrite the file with another row order
	os.WriteFile(file, CSVText(cols, permuteRows(rows, p.B.Perm), ','), 0644)
	if p.OldMtime {
		old := bubbleEpoch.Add(47 * time.Hour)
		os.Chtimes(file, old, old)
		res.probe("cache_hit_path", 1)
	}
	n.Clock = 49 * time.Hour
	r2 := n.Run(t, "commit", "main", "second", "-n", fmt.Sprint(p.B.Cfg.Workers))
	if bubbleProblems(res, r2.Out, "wrgl commit (2)") {
		return
	}
	if r2.Err != nil {
		res.Violate("commit-error", "second commit failed: %v %s", r2.Err, r2.Stdout)
		return
	}
	refs2, _ := n.Refs()
	if !strings.Contains(r2.Stdout, "hasn't changed") {
		res.Violate("unchanged-not-detected", "re-committing the same rows in another order was not detected as unchanged: %q", r2.Stdout)
		return
	}
	if !bytes.Equal(refs1["heads/main"], refs2["heads/main"]) {
		res.Violate("unchanged-moved-ref", "heads/main moved although the data did not change")
		return
	}
	if l2 := logLen(); l2 != l1 {
		res.Violate("unchanged-logged", "reflog of heads/main grew from %d to %d entries although nothing changed", l1, l2)
		return
	}
	// a real edit made within the second of that run (mtime half a second after it): it is a change, and the commit
	// that follows must carry it - the cached temporary commit of the previous run is stale
	if len(rows) > 0 && len(cols) > 0 {
		edited := make([][]string, len(rows))
		for i := range rows {
			edited[i] = append([]string(nil), rows[i]...)
		}
		j := len(cols) - 1
		if len(edited[0][j]) < 60000 {
			edited[0][j] += "~"
		}
		if len(DedupeByKey(cols, pk, edited)) == len(rows) && len(NormaliseCSV(cols, edited)) == len(rows) {
			os.WriteFile(file, CSVText(cols, permuteRows(edited, p.B.Perm), ','), 0644)
			at := bubbleEpoch.Add(49*time.Hour + 500*time.Millisecond)
			os.Chtimes(file, at, at)
			n.Clock = 49*time.Hour + time.Second
			r3 := n.Run(t, "commit", "main", "third", "-n", fmt.Sprint(p.B.Cfg.Workers))
			if bubbleProblems(res, r3.Out, "wrgl commit (3)") {
				return
			}
			if r3.Err != nil {
				res.Violate("commit-error", "third commit failed: %v %s", r3.Err, r3.Stdout)
				return
			}
			refs3, _ := n.Refs()
			if strings.Contains(r3.Stdout, "hasn't changed") || bytes.Equal(refs3["heads/main"], refs2["heads/main"]) {
				res.Violate("change-not-detected", "a cell was edited half a second after the previous run (file mtime %v) and the branch file committed again one second after it: reported as unchanged: %q", at.UTC(), r3.Stdout)
				return
			}
			if c1, c3 := rawCommit(n.Objs, refs1["heads/main"]), rawCommit(n.Objs, refs3["heads/main"]); c1 == nil || c3 == nil || bytes.Equal(c1.Table, c3.Table) {
				res.Violate("identity-collides", "the table committed after a cell edit has the identifier of the table before it")
				return
			}
			res.probe("edit_within_the_second_of_the_cached_commit", 1)
		}
	}
	res.Nontrivial = len(rows) >= 3
}

func isFileTooLarge(err error) bool {
	return err != nil && (errors.Is(err, syscall.EFBIG) || strings.Contains(err.Error(), "file too large"))
}

// interleavedIngest sorts every text with a sorter of its own first (spilling as its run size says), and only
// then ingests them one after the other: all sorters hold their spill files at the same time.
func interleavedIngest(st *Store, texts [][]byte, pk []string, cfgs []IngestCfg) ([][]byte, error) {
	var sorters []*sorter.Sorter
	defer func() {
		for _, s := range sorters {
			s.Close()
		}
	}()
	for i, text := range texts {
		rs := cfgs[i].RunSize
		if rs == 0 {
			rs = 1 << 40
		}
		delim, _ := delimRune(cfgs[i].Delim)
		s, err := sorter.NewSorter(sorter.WithRunSize(rs), sorter.WithDelimiter(delim))
		if err != nil {
			return nil, err
		}
		sorters = append(sorters, s)
		if err := s.SortFile(io.NopCloser(bytes.NewReader(text)), pk); err != nil {
			return nil, err
		}
	}
	var sums [][]byte
	for _, s := range sorters {
		errCh := make(chan error, 1)
		blocks := s.SortedBlocks(context.Background(), nil, errCh)
		sum, err := ingest.IngestTableFromBlocks(st, s, s.Columns, s.PK, blocks, logr.Discard(), ingest.WithNumWorkers(1))
		if err != nil {
			return nil, err
		}
		select {
		case e := <-errCh:
			return nil, e
		default:
		}
		sums = append(sums, sum)
	}
	return sums, nil
}
