package sim

// Ref-store seams: the real refsql.Store on a real SQLite file, a statement
// level fault-injecting database/sql driver wrapper (simsql), and SimRef, the
// logging / fault-injecting ref.Store wrapper used by the multi-node profiles.

import (
	"context"
	"database/sql"
	"database/sql/driver"
	"errors"
	"fmt"
	"os"
	"sync"
	"time"

	"github.com/google/uuid"
	sqlite3 "github.com/mattn/go-sqlite3"
	"github.com/wrgl/wrgl/pkg/ref"
	refsql "github.com/wrgl/wrgl/pkg/ref/sql"
)

// ---- simsql: fail the n-th statement ----

var ErrSQLInjected = errors.New("simsql: injected statement failure")

type sqlFaultCtl struct {
	mu        sync.Mutex
	count     int
	failAt    int // 1-based; 0 = never
	Fired     int
	RowFired  int // of Fired: failures of a row step (rows.Next), which surface only in rows.Err()
	suspended int // >0: statements issued by the harness itself (not counted, never failed)
}

// Harness runs f with statement counting and failing switched off (the harness's own
// reads through the same connection must not perturb the schedule of faults).
func (c *sqlFaultCtl) Harness(f func()) {
	c.mu.Lock()
	c.suspended++
	c.mu.Unlock()
	defer func() {
		c.mu.Lock()
		c.suspended--
		c.mu.Unlock()
	}()
	f()
}

var SQLFault = &sqlFaultCtl{}

// Arm makes the n-th statement from now fail (0 disarms). Returns statements seen so far.
func (c *sqlFaultCtl) Arm(n int) {
	c.mu.Lock()
	c.count = 0
	c.failAt = n
	c.mu.Unlock()
}

func (c *sqlFaultCtl) Count() int {
	c.mu.Lock()
	defer c.mu.Unlock()
	return c.count
}

func (c *sqlFaultCtl) step() error {
	c.mu.Lock()
	defer c.mu.Unlock()
	if c.suspended > 0 {
		return nil
	}
	c.count++
	if c.failAt > 0 && c.count == c.failAt {
		c.Fired++
		return ErrSQLInjected
	}
	return nil
}

type simDriver struct{ inner *sqlite3.SQLiteDriver }

type simConn struct{ inner *sqlite3.SQLiteConn }

func (d *simDriver) Open(name string) (driver.Conn, error) {
	c, err := d.inner.Open(name)
	if err != nil {
		return nil, err
	}
	return &simConn{inner: c.(*sqlite3.SQLiteConn)}, nil
}

func (c *simConn) Prepare(q string) (driver.Stmt, error) { return c.inner.Prepare(q) }
func (c *simConn) Close() error                           { return c.inner.Close() }
func (c *simConn) Begin() (driver.Tx, error)              { return c.BeginTx(context.Background(), driver.TxOptions{}) }
func (c *simConn) BeginTx(ctx context.Context, o driver.TxOptions) (driver.Tx, error) {
	tx, err := c.inner.BeginTx(ctx, o)
	if err != nil {
		return nil, err
	}
	return &simTx{inner: tx}, nil
}
func (c *simConn) ExecContext(ctx context.Context, q string, args []driver.NamedValue) (driver.Result, error) {
	if err := SQLFault.step(); err != nil {
		return nil, err
	}
	return c.inner.ExecContext(ctx, q, args)
}
func (c *simConn) QueryContext(ctx context.Context, q string, args []driver.NamedValue) (driver.Rows, error) {
	if err := SQLFault.step(); err != nil {
		return nil, err
	}
	rows, err := c.inner.QueryContext(ctx, q, args)
	if err != nil {
		return nil, err
	}
	return &simRows{inner: rows}, nil
}

// simRows: go-sqlite3 steps a SELECT only inside rows.Next, so a locked database or a read I/O error
// during a scan shows up there (and then only in rows.Err()). Each Next counts as one fault point.
type simRows struct{ inner driver.Rows }

func (r *simRows) Columns() []string { return r.inner.Columns() }
func (r *simRows) Close() error      { return r.inner.Close() }
func (r *simRows) Next(dest []driver.Value) error {
	if err := SQLFault.step(); err != nil {
		SQLFault.mu.Lock()
		SQLFault.RowFired++
		SQLFault.mu.Unlock()
		return err
	}
	return r.inner.Next(dest)
}
func (c *simConn) PrepareContext(ctx context.Context, q string) (driver.Stmt, error) {
	return c.inner.PrepareContext(ctx, q)
}
func (c *simConn) Ping(ctx context.Context) error { return c.inner.Ping(ctx) }

type simTx struct{ inner driver.Tx }

func (t *simTx) Commit() error {
	if err := SQLFault.step(); err != nil {
		t.inner.Rollback()
		return err
	}
	return t.inner.Commit()
}
func (t *simTx) Rollback() error { return t.inner.Rollback() }

func init() {
	sql.Register("sqlite3_sim", &simDriver{inner: &sqlite3.SQLiteDriver{}})
}

// ---- RefDB: a real refsql.Store over a SQLite file ----

type RefDB struct {
	Path string
	DB   *sql.DB
	*refsql.Store
}

// OpenRefDB opens (creating the schema if the file is new) the SQLite ref store.
func OpenRefDB(path string) (*RefDB, error) {
	_, statErr := os.Stat(path)
	db, err := sql.Open("sqlite3_sim", path)
	if err != nil {
		return nil, err
	}
	db.SetMaxOpenConns(1)
	if statErr != nil {
		for _, st := range refsql.CreateTableStmts {
			if _, err := db.Exec(st); err != nil {
				db.Close()
				return nil, fmt.Errorf("create schema: %v", err)
			}
		}
	}
	return &RefDB{Path: path, DB: db, Store: refsql.NewStore(db)}, nil
}

func (r *RefDB) Close() error { return r.DB.Close() }

// ---- SimRef: logging + fault-injecting wrapper ----

type RefTransition struct {
	Seq    int
	Name   string
	Old    []byte
	New    []byte // nil = deleted
	Method string
	Logged bool
}

type SimRef struct {
	Inner  ref.Store
	Name   string // log store name, e.g. "ref:L"
	W      *World
	Path   string // sqlite file, snapshotted after every mutation ("" = no snapshots)
	Faults []*Fault
	Trans  []RefTransition
	mu     sync.Mutex
}

func (s *SimRef) fail(op, key string) bool {
	s.mu.Lock()
	defer s.mu.Unlock()
	s.W.mu.Lock()
	s.W.Steps++
	s.W.mu.Unlock()
	hit := false
	for _, f := range s.Faults {
		ok := f.Op == op || f.Op == "any" || (f.Op == "write" && op != "get") || (f.Op == "refwrite" && op != "get")
		if !ok || !hasPrefix(key, f.Prefix) {
			continue
		}
		f.seen++
		if f.seen == f.Nth || (f.Sticky && f.seen > f.Nth) {
			f.Fired++
			hit = true
		}
	}
	return hit
}

func (s *SimRef) FaultsFired() int {
	n := 0
	for _, f := range s.Faults {
		n += f.Fired
	}
	return n
}

func (s *SimRef) logMut(method, key string, old, new []byte, logged bool) {
	var snap []byte
	if s.Path != "" {
		snap, _ = os.ReadFile(s.Path)
	}
	s.W.appendLog(WriteRec{Store: s.Name, Op: "refsnap", Key: method + " " + key, Val: snap})
	s.mu.Lock()
	s.Trans = append(s.Trans, RefTransition{Seq: s.W.LogLen() - 1, Name: key, Old: old, New: new, Method: method, Logged: logged})
	s.mu.Unlock()
}

func (s *SimRef) cur(key string) (b []byte) {
	SQLFault.Harness(func() {
		v, err := s.Inner.Get(key)
		if err == nil {
			b = v
		}
	})
	return b
}

func (s *SimRef) SetWithLog(key string, val []byte, log *ref.Reflog) error {
	if s.fail("setlog", key) {
		return ErrInjected
	}
	old := s.cur(key)
	if err := s.Inner.SetWithLog(key, val, log); err != nil {
		return err
	}
	s.logMut("setlog", key, old, val, true)
	return nil
}
func (s *SimRef) Set(key string, val []byte) error {
	if s.fail("set", key) {
		return ErrInjected
	}
	old := s.cur(key)
	if err := s.Inner.Set(key, val); err != nil {
		return err
	}
	s.logMut("set", key, old, val, false)
	return nil
}
func (s *SimRef) Get(key string) ([]byte, error) {
	if s.fail("get", key) {
		return nil, ErrInjected
	}
	return s.Inner.Get(key)
}
func (s *SimRef) Delete(key string) error {
	if s.fail("del", key) {
		return ErrInjected
	}
	old := s.cur(key)
	if err := s.Inner.Delete(key); err != nil {
		return err
	}
	s.logMut("del", key, old, nil, false)
	return nil
}
func (s *SimRef) Filter(p, np []string) (map[string][]byte, error) {
	if s.fail("get", "") {
		return nil, ErrInjected
	}
	return s.Inner.Filter(p, np)
}
func (s *SimRef) FilterKey(p, np []string) ([]string, error) {
	if s.fail("get", "") {
		return nil, ErrInjected
	}
	return s.Inner.FilterKey(p, np)
}
func (s *SimRef) Rename(o, n string) error {
	if s.fail("rename", o) {
		return ErrInjected
	}
	old := s.cur(o)
	oldDst := s.cur(n)
	if err := s.Inner.Rename(o, n); err != nil {
		return err
	}
	s.logMut("rename-del", o, old, nil, false)
	s.logMut("rename-set", n, oldDst, old, false)
	return nil
}
func (s *SimRef) Copy(a, b string) error {
	if s.fail("copy", a) {
		return ErrInjected
	}
	src := s.cur(a)
	oldDst := s.cur(b)
	if err := s.Inner.Copy(a, b); err != nil {
		return err
	}
	s.logMut("copy", b, oldDst, src, false)
	return nil
}
func (s *SimRef) LogReader(key string) (ref.ReflogReader, error) { return s.Inner.LogReader(key) }
func (s *SimRef) NewTransaction(tx *ref.Transaction) (*uuid.UUID, error) {
	if s.fail("txnew", "") {
		return nil, ErrInjected
	}
	id, err := s.Inner.NewTransaction(tx)
	if err == nil {
		s.logMut("txnew", id.String(), nil, nil, false)
	}
	return id, err
}
func (s *SimRef) GetTransaction(id uuid.UUID) (*ref.Transaction, error) {
	return s.Inner.GetTransaction(id)
}
func (s *SimRef) UpdateTransaction(tx *ref.Transaction) error {
	if s.fail("txupdate", "") {
		return ErrInjected
	}
	err := s.Inner.UpdateTransaction(tx)
	if err == nil {
		s.logMut("txupdate", tx.ID.String(), nil, nil, false)
	}
	return err
}
func (s *SimRef) DeleteTransaction(id uuid.UUID) error {
	if s.fail("txdel", "") {
		return ErrInjected
	}
	err := s.Inner.DeleteTransaction(id)
	if err == nil {
		s.logMut("txdel", id.String(), nil, nil, false)
	}
	return err
}
func (s *SimRef) GCTransactions(ttl time.Duration) ([]uuid.UUID, error) {
	ids, err := s.Inner.GCTransactions(ttl)
	if err == nil && len(ids) > 0 {
		s.logMut("txgc", "", nil, nil, false)
	}
	return ids, err
}
func (s *SimRef) GetTransactionLogs(id uuid.UUID) (map[string]*ref.Reflog, error) {
	return s.Inner.GetTransactionLogs(id)
}
func (s *SimRef) ListTransactions(o, l int) ([]*ref.Transaction, error) {
	return s.Inner.ListTransactions(o, l)
}

var _ ref.Store = (*SimRef)(nil)
