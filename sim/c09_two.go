package sim

// C09 (two remotes): a client that holds a depth-limited copy of remote R's branch pushes it to a second remote
// R2. "After a successful push ... every updated ref points to a commit all of whose ancestors exist [on the
// remote], with tables and blocks present for every commit": a client that lacks tables cannot make that true,
// so the push must be refused (R2 untouched) - also after the remote the shallow commits came from has been
// removed or renamed, and also after `fetch tables` completed only some of them. With a full copy it must succeed.

import (
	"encoding/json"
	"fmt"
	"net/http"
	"os"
	"path/filepath"
	"strings"
	"testing"
	"time"

	"github.com/wrgl/wrgl/pkg/ref"
)

type C09TwoPlan struct {
	NCommits int    `json:"n_commits"` // commits on R's main (2..6)
	Depth    int    `json:"depth"`     // depth of the client's fetch (0 = everything)
	Via      string `json:"via"`       // pull | fetch (fetch, then `branch create main origin/main`)
	OnTop    int    `json:"on_top"`    // commits the client adds on top (0..2)
	Origin   string `json:"origin"`    // what happens to the remote "origin" before the push: keep | remove | rename
	Complete bool   `json:"complete"`  // `wrgl fetch tables origin --missing` before that (then the copy is full)
	Force    bool   `json:"force"`
	Rows     int    `json:"rows"`
	Knobs    ServerKnobs `json:"knobs"`
}

func init() {
	Register(&Profile{
		ID: "C09two", Prop: "C09",
		Rule: "client L, remotes R and R2 (two reference servers on the simulated network): R's main has 2-6 commits; L takes it with pull or fetch + branch create at --depth 0/1/2, adds 0-2 commits, optionally completes the tables (`fetch tables --missing`), then the remote `origin` is kept, removed or renamed and main is pushed to R2. A push that succeeds must leave R2's main with every ancestor and every table and block (checked structurally); a refused push leaves R2 without refs; a full copy must be accepted; non-trivial = every case",
		Gen: func(seed uint64, tier string) any {
			r := NewRand(seed)
			return C09TwoPlan{NCommits: r.Range(2, 6), Depth: Pick(r, []int{0, 1, 1, 1, 2, 2}), Via: Pick(r, []string{"pull", "fetch"}), OnTop: r.Range(0, 2),
				Origin: Pick(r, []string{"keep", "remove", "remove", "rename"}), Complete: r.Chance(0.25), Force: r.Chance(0.2), Rows: Pick(r, []int{1, 3, 20, 300}),
				Knobs: ServerKnobs{TableBatch: Pick(r, []int{0, 1, 2, 256}), MaxPackfileSize: Pick(r, []uint64{0, 0, 300, 4096})}}
		},
		Exec: execC09Two,
	})
}

func execC09Two(t *testing.T, raw json.RawMessage, res *Result) {
	var p C09TwoPlan
	if err := json.Unmarshal(raw, &p); err != nil {
		res.Invalid("plan: %v", err)
		return
	}
	if p.NCommits < 1 || p.NCommits > 12 || p.Depth < 0 || p.Depth > 10 || (p.Via != "pull" && p.Via != "fetch") || p.OnTop < 0 || p.OnTop > 4 ||
		(p.Origin != "keep" && p.Origin != "remove" && p.Origin != "rename") || p.Rows < 1 || p.Rows > 1000 || p.Knobs.TableBatch < 0 || p.Knobs.TableBatch > 4096 {
		res.Invalid("plan out of range")
		return
	}
	w := &World{}
	nodes := map[string]*Node{}
	defer func() {
		for _, n := range nodes {
			n.Close()
		}
	}()
	for _, name := range []string{"L", "R", "R2"} {
		n, err := NewNode(t, name, w)
		if err != nil {
			res.Invalid("node: %v", err)
			return
		}
		n.Objs.Monitor = MonitorC06
		nodes[name] = n
	}
	L, R, R2 := nodes["L"], nodes["R"], nodes["R2"]
	net := NewSimNet()
	for host, n := range map[string]*Node{"r.example.com": R, "r2.example.com": R2} {
		n := n
		srv := NewRefServer(n.Objs, nil, p.Knobs)
		srv.OpenRS = func() (ref.Store, func(), error) {
			db, err := OpenRefDB(filepath.Join(n.WrglDir, "sqlite.db"))
			if err != nil {
				return nil, nil, err
			}
			return db, func() { db.Close() }, nil
		}
		net.AddServer(host, srv)
	}
	prevTransport := http.DefaultTransport
	http.DefaultTransport = net
	defer func() { http.DefaultTransport = prevTransport }()
	os.Setenv("XDG_CONFIG_HOME", filepath.Join(L.Root, "xdg"))
	seq := 0
	file := func(n *Node) string {
		seq++
		cols := []string{"id", "v"}
		var rows [][]string
		for i := 0; i < p.Rows; i++ {
			rows = append(rows, []string{fmt.Sprintf("%05d", i), fmt.Sprintf("r%d", i)})
		}
		rows[0][1] = fmt.Sprintf("version-%d", seq)
		return n.WriteFile(fmt.Sprintf("f%d.csv", seq), CSVText(cols, rows, ','))
	}
	must := func(n *Node, args ...string) bool {
		n.Clock += time.Hour
		r := n.Run(t, args...)
		if bubbleProblems(res, r.Out, "wrgl "+strings.Join(args, " ")) {
			return false
		}
		if r.Failed() {
			res.Invalid("pre-state `wrgl %s` on %s failed: %v %s", strings.Join(args, " "), n.Name, r.Err, r.Stdout)
			return false
		}
		return true
	}
	for i := 0; i < p.NCommits; i++ {
		if !must(R, "commit", "main", file(R), fmt.Sprintf("r%d", i), "-p", "id", "-n", "1") {
			return
		}
	}
	if !must(L, "remote", "add", "origin", "http://r.example.com") {
		return
	}
	depth := []string{}
	if p.Depth > 0 {
		depth = []string{"--depth", fmt.Sprint(p.Depth)}
	}
	if p.Via == "pull" {
		if !must(L, append([]string{"pull", "main", "origin", "refs/heads/main:refs/remotes/origin/main", "-n", "1"}, depth...)...) {
			return
		}
	} else {
		if !must(L, append([]string{"fetch", "origin", "refs/heads/main:refs/remotes/origin/main"}, depth...)...) || !must(L, "branch", "create", "main", "origin/main") {
			return
		}
	}
	for i := 0; i < p.OnTop; i++ {
		if !must(L, "commit", "main", file(L), fmt.Sprintf("l%d", i), "-p", "id", "-n", "1") {
			return
		}
	}
	if p.Complete {
		L.Clock += time.Hour
		r := L.Run(t, "fetch", "tables", "origin", "--missing")
		if bubbleProblems(res, r.Out, "wrgl fetch tables origin --missing") {
			return
		}
		if r.Failed() {
			// nothing missing is reported as an error by some versions; what matters is the state afterwards
			res.probe("fetch_tables_missing_failed", 1)
		}
	}
	switch p.Origin {
	case "remove":
		if !must(L, "remote", "remove", "origin") {
			return
		}
	case "rename":
		if !must(L, "remote", "rename", "origin", "old") {
			return
		}
	}
	if !must(L, "remote", "add", "other", "http://r2.example.com") {
		return
	}
	// does L hold the whole history with every table?
	lrefs, _ := L.Refs()
	tip := lrefs["heads/main"]
	if tip == nil {
		res.Invalid("L has no main")
		return
	}
	fullClass, _ := checkHistoryComplete(L.Objs, nil, tip, 0, nil)
	full := fullClass == ""
	args := []string{"push", "other", "refs/heads/main:refs/heads/main"}
	if p.Force {
		args = append(args, "--force")
	}
	L.Clock += time.Hour
	pr := L.Run(t, args...)
	if bubbleProblems(res, pr.Out, "wrgl "+strings.Join(args, " ")) {
		return
	}
	r2refs, err := R2.Refs()
	if err != nil {
		res.Invalid("refs of R2: %v", err)
		return
	}
	got := r2refs["heads/main"]
	what := fmt.Sprintf("L took R's main (%d commits) by %s at depth %d, added %d commits, complete=%v, origin %s, then `wrgl %s`", p.NCommits, p.Via, p.Depth, p.OnTop, p.Complete, p.Origin, strings.Join(args, " "))
	if got != nil {
		if string(got) != string(tip) {
			res.Violate("c09-push-wrong-commit", "%s: R2's main is %x, L's is %x", what, got, tip)
			return
		}
		if c, d := checkHistoryComplete(R2.Objs, L.Objs, got, 0, nil); c != "" {
			res.Violate("c09-push-"+c, "%s (exit error: %v): the push moved R2's main but %s", what, pr.Err, d)
			return
		}
		if me := R2.Objs.TakeMonErrs(); len(me) > 0 {
			res.Violate("c06-monitor", "%s", me[0])
			return
		}
		res.probe("push_to_second_remote_succeeded", 1)
	} else {
		if !pr.Failed() {
			res.Violate("c09-push-reported-success", "%s: reported success but R2 has no main", what)
			return
		}
		if full {
			res.Violate("c09-push-refused", "%s: L holds the whole history with every table, yet the push failed: %v\n%s", what, pr.Err, pr.Stdout)
			return
		}
		if len(r2refs) != 0 {
			res.Violate("c09-refused-push-left-refs", "%s: refused, but R2 has refs %v", what, keysOfBytes(r2refs))
			return
		}
		res.probe("push_of_shallow_history_refused", 1)
		if p.Origin != "keep" {
			res.probe("push_of_shallow_history_refused_origin_gone", 1)
		}
	}
	if me := L.Objs.TakeMonErrs(); len(me) > 0 {
		res.Violate("c06-monitor", "%s", me[0])
		return
	}
	res.stat("sim_steps", float64(w.Steps))
	res.Nontrivial = true
}

func keysOfBytes(m map[string][]byte) []string {
	var s []string
	for k := range m {
		s = append(s, k)
	}
	return s
}
