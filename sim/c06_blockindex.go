package sim

// C06 (block index): the block index ingest writes (objects.IndexBlockFromBytes over the stored block
// bytes) must be the canonical index of that block under the table's key - the same bytes as
// objects.IndexBlock over the decoded rows, as ingest.IndexTable recomputes it on the receiving side - for
// every order of the key columns, and must read back equal under key = hash.

import (
	"bytes"
	"fmt"

	"github.com/pckhoi/meow"
	"github.com/wrgl/wrgl/pkg/objects"
)

func genC06BlockIndex(r *Rand) C06Plan {
	p := C06Plan{Kind: "blockindex", Rows: Pick(r, []int{1, 2, 3, 17, 254, 255}), Cols: r.Range(1, 6)}
	perm := r.Perm(p.Cols)
	for _, j := range perm[:r.Intn(min(4, p.Cols)+1)] {
		p.TPK = append(p.TPK, uint32(j))
	}
	p.CellLen = Pick(r, []int{0, 1, 3, 40})
	p.ClockHours = int64(r.Intn(1 << 30)) // seed of the cells
	return p
}

func execC06BlockIndex(p *C06Plan, res *Result) {
	if p.Rows < 1 || p.Rows > 255 || p.Cols < 1 || p.Cols > 12 || len(p.TPK) > p.Cols || p.CellLen < 0 || p.CellLen > 70000 {
		res.Invalid("plan out of range")
		return
	}
	seen := map[uint32]bool{}
	for _, k := range p.TPK {
		if int(k) >= p.Cols || seen[k] {
			res.Invalid("pk")
			return
		}
		seen[k] = true
	}
	r := NewRand(uint64(p.ClockHours))
	blk := make([][]string, p.Rows)
	for i := range blk {
		blk[i] = make([]string, p.Cols)
		for j := range blk[i] {
			n := p.CellLen
			if n > 0 {
				n = r.Range(0, n)
			}
			b := make([]byte, n)
			for k := range b {
				b[k] = byte('a' + r.Intn(4))
			}
			blk[i][j] = fmt.Sprintf("%s%d", b, r.Intn(3))
		}
	}
	enc := objects.NewStrListEncoder(true)
	var bb bytes.Buffer
	if _, err := objects.WriteBlockTo(enc, &bb, blk); err != nil {
		res.Invalid("write block: %v", err)
		return
	}
	fromBytes, err := objects.IndexBlockFromBytes(objects.NewStrListDecoder(true), meow.New(0), objects.NewStrListEditor(p.TPK), bb.Bytes(), p.TPK)
	if err != nil {
		res.Violate("blockindex-error", "IndexBlockFromBytes(%d rows x %d cols, pk %v): %v", p.Rows, p.Cols, p.TPK, err)
		return
	}
	fromRows, err := objects.IndexBlock(objects.NewStrListEncoder(true), meow.New(0), blk, p.TPK)
	if err != nil {
		res.Violate("blockindex-error", "IndexBlock(%d rows x %d cols, pk %v): %v", p.Rows, p.Cols, p.TPK, err)
		return
	}
	var b1, b2 bytes.Buffer
	fromBytes.WriteTo(&b1)
	fromRows.WriteTo(&b2)
	if !bytes.Equal(b1.Bytes(), b2.Bytes()) {
		res.Violate("blockindex-not-canonical", "block of %d rows x %d cols under key %v: the index computed from the stored bytes (what ingest writes) differs from the index of the decoded rows (what a receiver recomputes)", p.Rows, p.Cols, p.TPK)
		return
	}
	// every row must be found under the hash of its key cells, at its offset
	for i, row := range blk {
		if len(p.TPK) == 0 {
			break
		}
		key := make([]string, len(p.TPK))
		for x, k := range p.TPK {
			key[x] = row[k]
		}
		off, rowSum := fromBytes.Get(meowSum(enc.Encode(key)))
		hit := false
		if rowSum == nil {
			off = 255
		}
		// duplicate keys inside the block: any row with the same key may answer
		for j, other := range blk {
			same := true
			for _, k := range p.TPK {
				if other[k] != row[k] {
					same = false
				}
			}
			if same && rowSum != nil && int(off) == j {
				hit = true
			}
		}
		if !hit {
			res.Violate("blockindex-lookup", "block of %d rows under key %v: row %d is not found under the hash of its key cells (got offset %d)", p.Rows, p.TPK, i, off)
			return
		}
	}
	st := NewStore("B", &World{})
	st.Monitor = MonitorC06
	sum, _, err := objects.SaveBlockIndex(st, nil, b1.Bytes())
	if err != nil {
		res.Invalid("save: %v", err)
		return
	}
	if me := st.TakeMonErrs(); len(me) > 0 {
		res.Violate("c06-monitor", "%s", me[0])
		return
	}
	got, _, err := objects.GetBlockIndex(st, nil, sum)
	if err != nil {
		res.Violate("blockindex-unreadable", "%v", err)
		return
	}
	var b3 bytes.Buffer
	got.WriteTo(&b3)
	if !bytes.Equal(b3.Bytes(), b1.Bytes()) {
		res.Violate("blockindex-differs", "block index of %d rows reads back different", p.Rows)
		return
	}
	res.probe("blockindex_pk_cols", len(p.TPK))
	if len(p.TPK) >= 3 {
		res.probe("blockindex_key_of_3_or_more_columns", 1)
	}
	res.Nontrivial = true
}
