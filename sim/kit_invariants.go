package sim

import (
	"bytes"
	"fmt"
	"sort"
	"strings"

	"github.com/wrgl/wrgl/pkg/objects"
)

// CheckRepoInvariants evaluates I1-I4 of C13 on a durable state.
func CheckRepoInvariants(objs map[string][]byte, refs map[string][]byte) (class, detail string) {
	rd := mapReader(objs)
	getCommit := func(sum []byte) (*objects.Commit, error) {
		v, ok := objs["com/"+string(sum)]
		if !ok {
			return nil, fmt.Errorf("commit %x missing", sum)
		}
		_, c, err := objects.ReadCommitFrom(bytes.NewReader(v))
		return c, err
	}
	names := make([]string, 0, len(refs))
	for k := range refs {
		names = append(names, k)
	}
	sort.Strings(names)
	for _, name := range names {
		c, err := getCommit(refs[name])
		if err != nil {
			return "I1-ref-dangling", fmt.Sprintf("ref %q -> %x: %v", name, refs[name], err)
		}
		if strings.HasPrefix(name, "heads/") {
			if _, ok := objs["tbl/"+string(c.Table)]; !ok {
				return "I4-branch-without-table", fmt.Sprintf("branch %q points at commit %x whose table %x is absent", name, refs[name], c.Table)
			}
		}
	}
	keys := make([]string, 0, len(objs))
	for k := range objs {
		keys = append(keys, k)
	}
	sort.Strings(keys)
	for _, k := range keys {
		switch {
		case strings.HasPrefix(k, "com/"):
			c, err := getCommit([]byte(k[4:]))
			if err != nil {
				return "I2-commit-undecodable", fmt.Sprintf("commit %x: %v", k[4:], err)
			}
			for _, p := range c.Parents {
				if _, ok := objs["com/"+string(p)]; !ok {
					return "I2-parent-missing", fmt.Sprintf("stored commit %x lacks its parent %x", k[4:], p)
				}
			}
		case strings.HasPrefix(k, "tbl/"):
			if c, d := CheckTable(rd, []byte(k[4:])); c != "" {
				return "I3-table-unusable:" + c, fmt.Sprintf("table %x is present but %s", k[4:], d)
			}
		}
	}
	return "", ""
}

// CommitShape is a timestamp-independent description of a commit's history.
func CommitShape(objs map[string][]byte, sum []byte, memo map[string]string) string {
	if s, ok := memo[string(sum)]; ok {
		return s
	}
	v, ok := objs["com/"+string(sum)]
	if !ok {
		return "missing"
	}
	_, c, err := objects.ReadCommitFrom(bytes.NewReader(v))
	if err != nil {
		return "undecodable"
	}
	var ps []string
	for _, p := range c.Parents {
		ps = append(ps, CommitShape(objs, p, memo))
	}
	s := fmt.Sprintf("%x", meowSum([]byte(fmt.Sprintf("%x|%s|%s|%s|%s", c.Table, c.Message, c.AuthorName, c.AuthorEmail, strings.Join(ps, ",")))))
	memo[string(sum)] = s
	return s
}

// RefShapes maps every ref to the shape of the history it points at.
func RefShapes(objs map[string][]byte, refs map[string][]byte) map[string]string {
	memo := map[string]string{}
	out := map[string]string{}
	for k, v := range refs {
		out[k] = CommitShape(objs, v, memo)
	}
	return out
}

func shapesEqual(a, b map[string]string) string {
	for k, v := range a {
		if w, ok := b[k]; !ok {
			return fmt.Sprintf("ref %q missing", k)
		} else if w != v {
			return fmt.Sprintf("ref %q points at a different table/history", k)
		}
	}
	for k := range b {
		if _, ok := a[k]; !ok {
			return fmt.Sprintf("extra ref %q", k)
		}
	}
	return ""
}
