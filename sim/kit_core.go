package sim

import (
	"crypto/sha1"
	"encoding/hex"
	"encoding/json"
	"fmt"
	"os"
	"runtime/debug"
	"strings"
	"testing"
	"testing/synctest"
	"time"
)

// Result of executing one plan.
type Result struct {
	Profile    string             `json:"profile"`
	Seed       uint64             `json:"seed"`
	PlanHash   string             `json:"plan_hash"`
	Verdict    string             `json:"verdict"` // ok | violation | invalid
	Class      string             `json:"class,omitempty"`
	Detail     string             `json:"detail,omitempty"`
	Nontrivial bool               `json:"nontrivial"`
	Stats      map[string]float64 `json:"stats,omitempty"`
	Faults     map[string]int     `json:"faults,omitempty"`
	Probes     map[string]int     `json:"probes,omitempty"`
	Hashes     []string           `json:"hashes,omitempty"` // schedule / state hashes for distinctness
	Plan       json.RawMessage    `json:"plan,omitempty"`
	Sample     any                `json:"sample,omitempty"`
	WallMs     float64            `json:"wall_ms"`
}

func (r *Result) stat(k string, v float64) {
	if r.Stats == nil {
		r.Stats = map[string]float64{}
	}
	r.Stats[k] += v
}
func (r *Result) probe(k string, n int) {
	if r.Probes == nil {
		r.Probes = map[string]int{}
	}
	r.Probes[k] += n
}
func (r *Result) fault(k string, n int) {
	if r.Faults == nil {
		r.Faults = map[string]int{}
	}
	r.Faults[k] += n
}
func (r *Result) hashOf(s string) {
	if len(r.Hashes) < 64 {
		r.Hashes = append(r.Hashes, s)
	}
}

// Violate records the first violation only (class must be stable under shrinking).
func (r *Result) Violate(class, format string, a ...any) {
	if r.Verdict == "violation" {
		return
	}
	r.Verdict = "violation"
	r.Class = class
	r.Detail = fmt.Sprintf(format, a...)
	if len(r.Detail) > 1500 {
		r.Detail = r.Detail[:1500] + "…"
	}
}
func (r *Result) Invalid(format string, a ...any) {
	if r.Verdict == "violation" {
		return
	}
	r.Verdict = "invalid"
	r.Detail = fmt.Sprintf(format, a...)
}
// Skip marks a generated case as outside the property's domain (not an error).
func (r *Result) Skip(format string, a ...any) {
	if r.Verdict == "violation" {
		return
	}
	r.Verdict = "skip"
	r.Detail = fmt.Sprintf(format, a...)
}
func (r *Result) Bad() bool { return r.Verdict == "violation" || r.Verdict == "invalid" }

type Profile struct {
	ID   string
	Prop string
	Race bool // needs the -race binary; one case per OS process
	Gen  func(seed uint64, tier string) any
	Exec func(t *testing.T, plan json.RawMessage, res *Result)
	// Note is copied to the evidence "rule".
	Rule string
}

var Profiles = map[string]*Profile{}

func Register(p *Profile) { Profiles[p.ID] = p }

func PlanHash(b []byte) string {
	h := sha1.Sum(b)
	return hex.EncodeToString(h[:8])
}

// RunPlan executes one plan in-process.
func RunPlan(t *testing.T, p *Profile, seed uint64, plan json.RawMessage) *Result {
	res := &Result{Profile: p.ID, Seed: seed, PlanHash: PlanHash(plan), Verdict: "ok"}
	start := time.Now()
	completed := false
	doneCh := make(chan struct{})
	// Exec runs in its own goroutine: when the race detector fails a bubble,
	// testing calls FailNow (runtime.Goexit) on the goroutine that called
	// synctest.Test; that must not take the worker loop down with it.
	go func() {
		defer close(doneCh)
		defer func() {
			if e := recover(); e != nil {
				st := string(debug.Stack())
				if isRepoPanic(st) {
					res.Violate("panic", "panic: %v\n%s", e, trimStack(st))
				} else {
					// a panic in harness code is an infrastructure problem
					res.Verdict = "invalid"
					res.Detail = fmt.Sprintf("harness panic: %v\n%s", e, trimStack(st))
				}
				completed = true
			}
		}()
		p.Exec(t, plan, res)
		completed = true
	}()
	<-doneCh
	if !completed && res.Verdict == "ok" {
		if raceErrors() > 0 {
			res.Verdict = "race-abort"
			res.Detail = "the race detector failed a bubble; see the race log"
		} else {
			res.Verdict = "invalid"
			res.Detail = "case goroutine exited early (t.FailNow?)"
		}
	}
	res.WallMs = float64(time.Since(start).Microseconds()) / 1000
	return res
}

// isRepoPanic: does the innermost non-runtime frame belong to wrgl?
func isRepoPanic(stack string) bool {
	lines := strings.Split(stack, "\n")
	seenPanic := false
	for _, l := range lines {
		if strings.HasPrefix(l, "panic(") {
			seenPanic = true
			continue
		}
		if !seenPanic {
			continue
		}
		if strings.HasPrefix(l, "\t") || strings.HasPrefix(l, "runtime.") || strings.HasPrefix(l, "runtime/") {
			continue
		}
		if strings.HasPrefix(l, "github.com/wrgl/wrgl/") {
			return true
		}
		if strings.HasPrefix(l, "verif/sim") {
			return false
		}
		// frames in std / third-party called from wrgl: keep scanning outward
	}
	return false
}

func trimStack(st string) string {
	lines := strings.Split(st, "\n")
	var out []string
	for _, l := range lines {
		if strings.Contains(l, "github.com/wrgl/wrgl") || strings.Contains(l, "/repo/") || strings.Contains(l, "verif/sim") {
			out = append(out, l)
		}
		if len(out) > 24 {
			break
		}
	}
	return strings.Join(out, "\n")
}

// BubbleOutcome describes how a simulated process ended.
type BubbleOutcome struct {
	Deadlock   bool   // synctest reported all goroutines blocked
	Leaked     bool   // main returned but goroutines remained blocked
	PanicVal   any    // a panic propagated out of the bubble's main goroutine
	PanicStack string
	SimTime    time.Duration
}

var bubbleEpoch = time.Date(2000, 1, 1, 0, 0, 0, 0, time.UTC)

// Bubble runs f as one simulated process inside a synctest bubble whose clock
// starts at 2000-01-01T00:00:00Z + offset. mainDone must be set by f when the
// caller-visible work has returned (to tell hang from leak).
func Bubble(t *testing.T, offset time.Duration, f func(mainDone *bool)) (out BubbleOutcome) {
	var mainDone bool
	func() {
		defer func() {
			if e := recover(); e != nil {
				msg := fmt.Sprint(e)
				if strings.Contains(msg, "deadlock:") {
					if mainDone {
						out.Leaked = true
					} else {
						out.Deadlock = true
					}
					return
				}
				out.PanicVal = e
				out.PanicStack = string(debug.Stack())
			}
		}()
		synctest.Test(t, func(t *testing.T) {
			if offset > 0 {
				time.Sleep(offset)
			}
			start := time.Now()
			defer func() { out.SimTime = time.Since(start) }()
			// a panic in the bubble's root goroutine would be re-panicked by
			// testing and kill the worker: record it here instead
			defer func() {
				if e := recover(); e != nil {
					out.PanicVal = e
					out.PanicStack = string(debug.Stack())
				}
			}()
			f(&mainDone)
		})
	}()
	return
}

// ---- worker protocol ----

type workerEvent struct {
	Ev   string  `json:"ev"`
	Seed uint64  `json:"seed,omitempty"`
	Res  *Result `json:"res,omitempty"`
}

func emit(f *os.File, ev workerEvent) {
	b, _ := json.Marshal(ev)
	b = append(b, '\n')
	f.Write(b)
}

func mustJSON(v any) json.RawMessage {
	b, err := json.Marshal(v)
	if err != nil {
		panic(err)
	}
	return b
}

func raceErrors() int { return runtime_raceErrors() }

func debugStack() []byte { return debug.Stack() }
