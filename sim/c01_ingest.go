package sim

// C01 (library path): real sorter + ingest worker pool under the parking
// scheduler, compared with the sort+dedupe model. Also provides the shared
// ingest driver used by C02/C03/C16.

import (
	"bytes"
	"encoding/json"
	"fmt"
	"io"
	"os"
	"testing"

	"github.com/go-logr/logr"
	"github.com/wrgl/wrgl/pkg/ingest"
	"github.com/wrgl/wrgl/pkg/objects"
	"github.com/wrgl/wrgl/pkg/sorter"
)

type IngestCfg struct {
	Delim     string `json:"delim"`    // "," "|" ";" "\t"
	RunSize   uint64 `json:"run_size"` // 0 = never spill
	Workers   int    `json:"workers"`  // value of -n; effective = max(1,n-2)
	SchedSeed uint64 `json:"sched_seed"`
	Policy    string `json:"policy,omitempty"`
	// FsizeLimit > 0: while this ingest runs no file may grow beyond that many bytes (spill files: disk full / quota)
	FsizeLimit uint64 `json:"fsize_limit,omitempty"`
}

type C01Plan struct {
	Table  TableSpec `json:"table"`
	Cfg    IngestCfg `json:"cfg"`
	Faults []*Fault  `json:"faults,omitempty"`
	// Synth (instead of Table) + SpillCut: a table large enough for spill files beyond the sorter's read
	// buffer; one spill file is cut inside a row at the moment the CutAtSet-th object is stored, i.e.
	// while the sorter is merging and the ingest workers are writing
	Synth    *SynthSpec `json:"synth,omitempty"`
	SpillCut *SpillCut  `json:"spill_cut,omitempty"`
	CutAtSet int        `json:"cut_at_set,omitempty"`
}

func genIngestCfg(r *Rand) IngestCfg {
	return IngestCfg{
		Delim:     Pick(r, []string{",", ",", ",", "|", ";", "\t", "§", "、"}),
		RunSize:   Pick(r, []uint64{0, 0, 1, 64, 512, 4096}),
		Workers:   Pick(r, []int{1, 3, 4, 5, 6, 8, 16}),
		SchedSeed: r.Uint64(),
	}
}

func delimRune(s string) (rune, error) {
	switch s {
	case "", ",":
		return ',', nil
	case "|":
		return '|', nil
	case ";":
		return ';', nil
	case "\t":
		return '\t', nil
	}
	if rs := []rune(s); len(rs) == 1 && rs[0] >= 0x80 && rs[0] != 0xFFFD {
		return rs[0], nil
	}
	return 0, fmt.Errorf("bad delimiter %q", s)
}

type IngestRun struct {
	Sum       []byte
	Err       error
	Out       BubbleOutcome
	Sched     *Sched
	SpillSeen int
	Store     *Store
	FsizeArmed bool
}

// RunIngest executes ingest.IngestTable inside a bubble on store st.
func RunIngest(t *testing.T, st *Store, text []byte, pk []string, cfg IngestCfg) *IngestRun {
	run := &IngestRun{Store: st}
	delim, _ := delimRune(cfg.Delim)
	sc := NewSched(cfg.SchedSeed)
	sc.Policy = cfg.Policy
	run.Sched = sc
	st.Sched = sc
	defer func() { st.Sched = nil }()
	runSize := cfg.RunSize
	if runSize == 0 {
		runSize = 1 << 40
	}
	body := func() {
		run.Out = Bubble(t, 0, func(mainDone *bool) {
			done := make(chan struct{})
			go func() {
				defer close(done)
				s, err := sorter.NewSorter(sorter.WithRunSize(runSize), sorter.WithDelimiter(delim))
				if err != nil {
					run.Err = err
					return
				}
				run.Sum, run.Err = ingest.IngestTable(st, s, io.NopCloser(bytes.NewReader(text)), pk, logr.Discard(), ingest.WithNumWorkers(cfg.Workers))
				*mainDone = true
			}()
			sc.Run(done)
		})
	}
	if cfg.FsizeLimit > 0 {
		run.FsizeArmed = withFsizeLimit(cfg.FsizeLimit, body)
	} else {
		body()
	}
	return run
}

func countTmp() int {
	d := os.Getenv("TMPDIR")
	if d == "" {
		return 0
	}
	es, _ := os.ReadDir(d)
	return len(es)
}

// ReadBackViaWrgl reads a table through wrgl's own readers.
func ReadBackViaWrgl(db objects.Store, sum []byte) (*objects.Table, [][]string, error) {
	tbl, err := objects.GetTable(db, sum)
	if err != nil {
		return nil, nil, err
	}
	var rows [][]string
	var bb []byte
	var blk [][]string
	for _, bs := range tbl.Blocks {
		blk, bb, err = objects.GetBlock(db, bb, bs)
		if err != nil {
			return tbl, nil, err
		}
		rows = append(rows, blk...)
	}
	return tbl, rows, nil
}

func maxCellLen(rows [][]string) int {
	m := 0
	for _, r := range rows {
		for _, c := range r {
			if len(c) > m {
				m = len(c)
			}
		}
	}
	return m
}

func bubbleProblems(res *Result, out BubbleOutcome, what string) bool {
	if out.PanicVal != nil {
		if isRepoPanic(out.PanicStack) {
			res.Violate("panic", "%s panicked: %v\n%s", what, out.PanicVal, trimStack(out.PanicStack))
		} else {
			res.Invalid("harness panic in %s: %v\n%s", what, out.PanicVal, trimStack(out.PanicStack))
		}
		return true
	}
	if out.Deadlock {
		res.Violate("deadlock", "%s: all goroutines blocked before the caller returned", what)
		return true
	}
	if out.Leaked {
		res.stat("leaked_goroutine_runs", 1)
	}
	return false
}

func init() {
	Register(&Profile{
		ID: "C01", Prop: "C01",
		Rule: "plan = generated CSV table (cells from a quoting/collision alphabet, boundary row counts, duplicate/empty keys, long cells) x delimiter x run size x worker count x store-op schedule seed; non-trivial = >=2 rows and (spilled to >=1 chunk file or >=2 blocks or duplicate keys or a cell >=255 bytes); distinct by plan hash",
		Gen: func(seed uint64, tier string) any {
			r := NewRand(seed)
			maxRows := 600
			if tier == "thorough" {
				maxRows = 1200
			}
			o := GenOpts{MaxRows: maxRows, AllowNoPK: true, BigCells: r.Chance(0.25), HugeRow: r.Chance(0.08), OverLimit: r.Chance(0.06)}
			if r.Chance(0.04) {
				cfg := genIngestCfg(r.Sub("knobs"))
				cfg.Delim, cfg.RunSize = ",", Pick(r, []uint64{30000, 60000, 100000})
				return C01Plan{Synth: &SynthSpec{N: r.Range(6000, 12000), NCols: r.Range(2, 4), Seed: r.Uint64()}, Cfg: cfg,
					SpillCut: &SpillCut{File: r.Intn(8), At: r.Intn(200000), Tail: true}, CutAtSet: r.Range(1, 6)}
			}
			return C01Plan{Table: GenTable(r.Sub("data"), o), Cfg: genIngestCfg(r.Sub("knobs"))}
		},
		Exec: execC01,
	})
}

func execC01(t *testing.T, raw json.RawMessage, res *Result) {
	var p C01Plan
	if err := json.Unmarshal(raw, &p); err != nil {
		res.Invalid("plan: %v", err)
		return
	}
	if p.Synth == nil {
		if err := p.Table.Validate(); err != nil {
			res.Invalid("plan: %v", err)
			return
		}
	} else if p.Synth.N < 0 || p.Synth.N > 20000 || p.Synth.NCols > 8 || p.CutAtSet < 0 || p.CutAtSet > 1000 {
		res.Invalid("plan: synth")
		return
	}
	delim, err := delimRune(p.Cfg.Delim)
	if err != nil || p.Cfg.Workers < 0 || p.Cfg.Workers > 64 {
		res.Invalid("plan: bad cfg")
		return
	}
	cols, rows := p.Table.Materialise()
	pkNames := make([]string, len(p.Table.PK))
	for i, s := range p.Table.PK {
		pkNames[i] = ToBytes(s)
	}
	if p.Synth != nil {
		cols, pkNames, rows = p.Synth.Build()
	}
	cleanTmp()
	defer cleanTmp()
	text := CSVText(cols, rows, delim)
	pcols, prows, err := ParseCSV(text, delim)
	if err != nil {
		res.Invalid("generated text is not well-formed CSV: %v", err)
		return
	}
	pk, err := pkIndices(pcols, pkNames)
	if err != nil {
		res.Invalid("plan: %v", err)
		return
	}
	exp := IngestModel(pcols, prows, pk)
	over := maxCellLen(prows) > 65535 || maxCellLen([][]string{pcols}) > 65535

	w := &World{}
	st := NewStore("L", w)
	st.Faults = p.Faults
	st.Monitor = MonitorC06
	spillCut := false
	if p.SpillCut != nil {
		sets := 0
		st.Monitor = func(key string, old []byte, had bool, val []byte) string {
			sets++
			if sets == max(p.CutAtSet, 1) {
				sc := *p.SpillCut
				sc.Tail = true // see SpillCut.Tail: the file is being read while it is cut
				spillCut = cutSpill(&sc)
			}
			return MonitorC06(key, old, had, val)
		}
	}
	run := RunIngest(t, st, text, pkNames, p.Cfg)
	if spillCut {
		res.fault("spill_file_truncated", 1)
		if run.Err != nil {
			// the sorter met the damaged run and said so: the commit is refused
			res.probe("spill_damage_reported", 1)
			res.Nontrivial = true
			return
		}
		res.probe("spill_cut_in_buffered_part", 1) // no error: then the table must be complete (checked below)
	}
	res.stat("sim_steps", float64(run.Sched.Steps))
	res.stat("sched_choices", float64(run.Sched.Choices))
	res.hashOf(fmt.Sprintf("sched:%x", run.Sched.Hash()))
	if bubbleProblems(res, run.Out, "ingest") {
		return
	}
	if n := countTmp(); n > 0 {
		res.Violate("spill-file-left", "%d files left in TMPDIR after ingest returned", n)
		return
	}
	if me := st.TakeMonErrs(); len(me) > 0 {
		res.Violate("c06-monitor", "%s", me[0])
		return
	}
	if over {
		res.probe("oversize_cell", 1)
		if run.Err == nil {
			// stored: must at least not be corrupted — but the statement says refused
			res.Violate("oversize-accepted", "a %d-byte cell was accepted (sum %x)", maxCellLen(prows), run.Sum)
		}
		res.Nontrivial = true
		return
	}
	if run.Err != nil {
		if st.FaultsFired() > 0 {
			res.fault("store_error", st.FaultsFired())
			return
		}
		res.Violate("ingest-error", "ingest of a well-formed CSV failed: %v", run.Err)
		return
	}
	tbl, got, err := ReadTableRaw(st, run.Sum)
	if err != nil {
		res.Violate("unreadable", "%v", err)
		return
	}
	if c, d := exp.Compare(tbl.Columns, tbl.PK, got); c != "" {
		res.Violate(c, "%s", d)
		return
	}
	if c, d := CheckTable(st, run.Sum); c != "" {
		res.Violate("c03-"+c, "%s", d)
		return
	}
	// wrgl's own readers must agree with the raw read
	_, got2, err := ReadBackViaWrgl(st, run.Sum)
	if err != nil {
		res.Violate("reader-error", "objects.GetTable/GetBlock: %v", err)
		return
	}
	if len(got2) != len(got) {
		res.Violate("reader-differs", "GetBlock yields %d rows, raw decode %d", len(got2), len(got))
		return
	}
	for i := range got {
		if !rowsEqual(got[i], got2[i]) {
			res.Violate("reader-differs", "row %d: GetBlock %s raw %s", i, clip(got2[i]), clip(got[i]))
			return
		}
	}
	nblocks := len(tbl.Blocks)
	spilled := p.Cfg.RunSize > 0 && len(text) > int(p.Cfg.RunSize)
	if spilled {
		res.probe("spilled", 1)
	}
	if nblocks >= 2 {
		res.probe("multi_block", 1)
		if p.Cfg.Workers >= 4 {
			res.probe("multi_worker_multi_block", 1)
		}
	}
	if !exp.Unique {
		res.probe("duplicate_keys", 1)
	}
	if maxCellLen(prows) >= 255 {
		res.probe("long_cell", 1)
	}
	for _, k := range exp.Keys {
		allEmpty := len(pk) > 0
		for _, s := range k {
			if s != "" {
				allEmpty = false
			}
		}
		if allEmpty {
			res.probe("empty_key", 1)
			break
		}
	}
	res.Nontrivial = len(prows) >= 2 && (spilled || nblocks >= 2 || !exp.Unique || maxCellLen(prows) >= 255)
}
