package sim

import (
	"fmt"
	"strings"
)

// Table data generator shared by the ingest/sort/diff/merge profiles.

type TableSpec struct {
	Cols []string   `json:"cols"`
	PK   []string   `json:"pk"`
	Rows [][]string `json:"rows"` // cell specs (see ExpandCell / ToBytes)
}

var colNamePool = []string{"id", "a", "b", "c", "d", "e", "k2", "name", "A", "a_b", "x y", "q\"q", "z,z"}

var cellAlphabet = []string{"", "a", "b", "ab", "ba", "aa", ",", "\"", "\n", "a,b", "x\"y", "line1\nline2", " ", "0", "1", "10", "2", "é", "ÿ", "\u0080þ", "A", "a ", "\t", ";", "|", "a|b", "a;b"}

type GenOpts struct {
	MaxRows    int
	MaxCols    int
	AllowNoPK  bool
	UniqueKeys bool
	BigCells   bool // allow cells near the 65535 limit
	OverLimit  bool // allow a cell over the limit
	HugeRow    bool // row whose encoding crosses 64 KiB
	SimpleOnly bool // only printable ASCII without CSV metacharacters
}

var rowCountChoices = []int{0, 1, 2, 3, 5, 8, 17, 254, 255, 256, 300, 509, 510, 511, 765}

func genColumns(r *Rand, max int) []string {
	n := r.Range(1, max)
	perm := r.Perm(len(colNamePool))
	cols := make([]string, n)
	for i := range cols {
		cols[i] = colNamePool[perm[i]]
	}
	return cols
}

func genCell(r *Rand, o *GenOpts) string {
	if o.SimpleOnly {
		return Pick(r, []string{"", "a", "b", "ab", "ba", "aa", "0", "1", "10", "2", "A", "zz"})
	}
	x := r.Intn(100)
	switch {
	case x < 70:
		return Pick(r, cellAlphabet)
	case x < 85:
		return Pick(r, cellAlphabet) + Pick(r, cellAlphabet)
	case x < 97:
		return fmt.Sprintf("%d", r.Intn(1000))
	default:
		if o.BigCells {
			n := Pick(r, []int{255, 256, 257, 4096, 65534, 65535})
			return fmt.Sprintf("~%d~%s", n, Pick(r, []string{"x", "ab", "q"}))
		}
		return strings.Repeat(Pick(r, []string{"x", "yz"}), r.Range(1, 40))
	}
}

// GenTable draws a table. Keys are drawn from a small space so duplicates and
// shared prefixes are common unless UniqueKeys is set.
func GenTable(r *Rand, o GenOpts) TableSpec {
	if o.MaxCols == 0 {
		o.MaxCols = 6
	}
	cols := genColumns(r, o.MaxCols)
	var pk []string
	if !(o.AllowNoPK && r.Chance(0.15)) {
		n := 1
		if len(cols) > 1 && r.Chance(0.35) {
			n = r.Range(2, min(3, len(cols)))
		}
		perm := r.Perm(len(cols))
		for i := 0; i < n; i++ {
			pk = append(pk, cols[perm[i]])
		}
	}
	nrows := 0
	x := r.Intn(100)
	switch {
	case x < 55:
		nrows = r.Range(0, 12)
	case x < 85:
		nrows = Pick(r, rowCountChoices)
	default:
		nrows = r.Range(0, o.MaxRows)
	}
	if nrows > o.MaxRows {
		nrows = o.MaxRows
	}
	pkIdx, _ := pkIndices(cols, pk)
	rows := make([][]string, 0, nrows)
	seen := map[string]bool{}
	// key style: numeric-ish strings (unique by construction) or alphabet draws
	numericKeys := r.Chance(0.5)
	for i := 0; i < nrows; i++ {
		row := make([]string, len(cols))
		for j := range row {
			row[j] = genCell(r, &o)
		}
		if len(pkIdx) > 0 {
			for t, u := range pkIdx {
				if numericKeys && t == len(pkIdx)-1 {
					row[u] = fmt.Sprintf("%d", r.Intn(nrows*2+3))
				} else if t < len(pkIdx)-1 {
					// composite keys whose leading components tie, or are proper prefixes of one
					// another continued by a byte below any separator (tab, newline, 0x01)
					row[u] = Pick(r, []string{"", "a", "b", "a", "ab", "a", "a\t", "a\tb", "a\n", "a\x01", "a\x01b", "a\x1f", "a "})
				}
			}
		}
		if o.UniqueKeys {
			k := keyStr(keyOf(ExpandRows([][]string{row})[0], pkIdx))
			tries := 0
			for seen[k] && tries < 20 {
				u := 0
				if len(pkIdx) > 0 {
					u = pkIdx[len(pkIdx)-1]
				} else {
					u = r.Intn(len(cols))
				}
				row[u] = fmt.Sprintf("%s%d", Pick(r, []string{"", "k", "a"}), r.Intn(nrows*4+10))
				k = keyStr(keyOf(ExpandRows([][]string{row})[0], pkIdx))
				tries++
			}
			if seen[k] {
				continue
			}
			seen[k] = true
		}
		rows = append(rows, row)
	}
	if o.HugeRow && len(rows) > 0 && r.Chance(0.5) {
		i := r.Intn(len(rows))
		for j := range rows[i] {
			if !contains(pkIdx, j) || len(cols) == 1 {
				rows[i][j] = fmt.Sprintf("~%d~%s", Pick(r, []int{30000, 40000, 65535}), "h")
			}
		}
	}
	if o.OverLimit && len(rows) > 0 {
		i := r.Intn(len(rows))
		j := r.Intn(len(cols))
		rows[i][j] = fmt.Sprintf("~%d~%s", Pick(r, []int{65536, 65537, 70000, 131072}), "o")
	}
	// adversarial placements: an all-empty key, duplicate far apart
	if len(rows) > 2 && len(pkIdx) > 0 && r.Chance(0.3) {
		i := r.Intn(len(rows))
		for _, u := range pkIdx {
			rows[i][u] = ""
		}
		if o.UniqueKeys {
			// keep uniqueness: drop other rows with empty key
			out := rows[:0]
			for t, row := range rows {
				emp := true
				for _, u := range pkIdx {
					if ExpandCell(row[u]) != "" {
						emp = false
					}
				}
				if emp && t != i {
					continue
				}
				out = append(out, row)
			}
			rows = out
		}
	}
	// two keys that differ only in where a NUL byte sits: ("k", "\x00v") and ("k\x00", "v") are distinct
	// keys that any separator-joined representation of the key confuses
	if len(rows) >= 2 && len(cols) >= 2 && (len(pkIdx) >= 2 || len(pkIdx) == 0) && r.Chance(0.12) {
		a, b2 := 0, 1
		if len(pkIdx) >= 2 {
			a, b2 = pkIdx[0], pkIdx[1]
		}
		i, j := r.Intn(len(rows)), r.Intn(len(rows))
		if i != j {
			sep := Pick(r, []string{"\x00", "\x00", "\x1f", "\t"})
			rows[i][a], rows[i][b2] = "k", sep+"v"
			rows[j][a], rows[j][b2] = "k"+sep, "v"
			if len(pkIdx) >= 2 {
				for _, u := range pkIdx[2:] {
					rows[j][u] = rows[i][u]
				}
			} else {
				for u := range cols {
					if u != a && u != b2 {
						rows[j][u] = rows[i][u]
					}
				}
			}
		}
	}
	return TableSpec{Cols: cols, PK: pk, Rows: rows}
}

func contains(xs []int, x int) bool {
	for _, y := range xs {
		if y == x {
			return true
		}
	}
	return false
}

// Materialise expands cell specs and byte escapes.
func (t TableSpec) Materialise() (cols []string, rows [][]string) {
	cols = make([]string, len(t.Cols))
	for i, c := range t.Cols {
		cols[i] = ToBytes(c)
	}
	rows = make([][]string, len(t.Rows))
	for i, r := range t.Rows {
		rows[i] = make([]string, len(r))
		for j, c := range r {
			rows[i][j] = ToBytes(ExpandCell(c))
		}
	}
	return
}

func (t TableSpec) Validate() error {
	if len(t.Cols) == 0 {
		return fmt.Errorf("no columns")
	}
	seen := map[string]bool{}
	for _, c := range t.Cols {
		if c == "" || seen[c] {
			return fmt.Errorf("empty or duplicate column %q", c)
		}
		seen[c] = true
	}
	pseen := map[string]bool{}
	for _, p := range t.PK {
		if !seen[p] || pseen[p] {
			return fmt.Errorf("bad pk %q", p)
		}
		pseen[p] = true
	}
	for i, r := range t.Rows {
		if len(r) != len(t.Cols) {
			return fmt.Errorf("row %d has %d cells", i, len(r))
		}
	}
	return nil
}
