package sim

import (
	"fmt"
	"io"
	"sort"
	"strings"
	"time"

	"github.com/google/uuid"
	"github.com/wrgl/wrgl/pkg/ref"
)

// MemRef: trivial in-memory ref.Store (used where the ref store is not the
// subject: C08, C07). Sequential use only.
type MemRef struct {
	M    map[string][]byte
	Logs map[string][]*ref.Reflog
	Txs  map[uuid.UUID]*ref.Transaction
}

func NewMemRef() *MemRef {
	return &MemRef{M: map[string][]byte{}, Logs: map[string][]*ref.Reflog{}, Txs: map[uuid.UUID]*ref.Transaction{}}
}

func (s *MemRef) SetWithLog(key string, val []byte, log *ref.Reflog) error {
	l := *log
	l.OldOID = s.M[key]
	l.NewOID = val
	s.Logs[key] = append(s.Logs[key], &l)
	s.M[key] = append([]byte(nil), val...)
	return nil
}
func (s *MemRef) Set(key string, val []byte) error { s.M[key] = append([]byte(nil), val...); return nil }
func (s *MemRef) Get(key string) ([]byte, error) {
	if v, ok := s.M[key]; ok {
		return v, nil
	}
	return nil, ref.ErrKeyNotFound
}
func (s *MemRef) Delete(key string) error { delete(s.M, key); delete(s.Logs, key); return nil }
func (s *MemRef) Filter(p, np []string) (map[string][]byte, error) {
	res := map[string][]byte{}
	for k, v := range s.M {
		ok := len(p) == 0
		for _, x := range p {
			if strings.HasPrefix(k, x) {
				ok = true
			}
		}
		for _, x := range np {
			if strings.HasPrefix(k, x) {
				ok = false
			}
		}
		if ok {
			res[k] = v
		}
	}
	return res, nil
}
func (s *MemRef) FilterKey(p, np []string) ([]string, error) {
	m, _ := s.Filter(p, np)
	ks := make([]string, 0, len(m))
	for k := range m {
		ks = append(ks, k)
	}
	sort.Strings(ks)
	return ks, nil
}
func (s *MemRef) Rename(o, n string) error {
	v, ok := s.M[o]
	if !ok {
		return ref.ErrKeyNotFound
	}
	if _, ok := s.M[n]; ok {
		return fmt.Errorf("ref %q exists", n)
	}
	s.M[n] = v
	s.Logs[n] = s.Logs[o]
	delete(s.M, o)
	delete(s.Logs, o)
	return nil
}
func (s *MemRef) Copy(a, b string) error {
	v, ok := s.M[a]
	if !ok {
		return ref.ErrKeyNotFound
	}
	s.M[b] = v
	s.Logs[b] = append([]*ref.Reflog(nil), s.Logs[a]...)
	return nil
}

type memLogReader struct {
	l []*ref.Reflog
	i int
}

func (r *memLogReader) Read() (*ref.Reflog, error) {
	if r.i < 0 {
		return nil, io.EOF
	}
	x := r.l[r.i]
	r.i--
	return x, nil
}
func (r *memLogReader) Close() error { return nil }

func (s *MemRef) LogReader(key string) (ref.ReflogReader, error) {
	l := s.Logs[key]
	if len(l) == 0 {
		return nil, ref.ErrKeyNotFound
	}
	return &memLogReader{l: l, i: len(l) - 1}, nil
}
func (s *MemRef) NewTransaction(tx *ref.Transaction) (*uuid.UUID, error) {
	if tx == nil {
		tx = &ref.Transaction{ID: uuid.New(), Status: ref.TSInProgress, Begin: time.Now()}
	}
	s.Txs[tx.ID] = tx
	return &tx.ID, nil
}
func (s *MemRef) GetTransaction(id uuid.UUID) (*ref.Transaction, error) {
	if t, ok := s.Txs[id]; ok {
		return t, nil
	}
	return nil, fmt.Errorf("transaction not found")
}
func (s *MemRef) UpdateTransaction(tx *ref.Transaction) error { s.Txs[tx.ID] = tx; return nil }
func (s *MemRef) DeleteTransaction(id uuid.UUID) error         { delete(s.Txs, id); return nil }
func (s *MemRef) GCTransactions(time.Duration) ([]uuid.UUID, error) {
	return nil, nil
}
func (s *MemRef) GetTransactionLogs(id uuid.UUID) (map[string]*ref.Reflog, error) {
	res := map[string]*ref.Reflog{}
	for k, ls := range s.Logs {
		for _, l := range ls {
			if l.Txid != nil && *l.Txid == id {
				res[k] = l
			}
		}
	}
	return res, nil
}
func (s *MemRef) ListTransactions(o, l int) ([]*ref.Transaction, error) { return nil, nil }

var _ ref.Store = (*MemRef)(nil)
