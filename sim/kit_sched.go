package sim

// Sched: the parking scheduler for bubble mode (DESIGN 2.3).
// Callers park in store operations; the scheduler loop (running inside the same
// synctest bubble) waits for quiescence, then releases exactly one pending
// request chosen by the schedule PRNG from the (op,key)-sorted pending set.

import (
	"fmt"
	"strings"
	"sync/atomic"
	"testing/synctest"
)

type schedReq struct {
	op, key string
	rel     chan struct{}
}

type Sched struct {
	reqs     chan *schedReq
	active   atomic.Bool
	rng      *Rand
	Trace    []string // chosen (op key) per step, capped
	Steps    int
	MaxPend  int // largest pending set seen
	Choices  int // steps at which >1 request was pending
	hash     uint64
	MaxSteps int
	Overflow bool
	// Policy: "" random; "fifo" always index 0; "lifo" always last
	Policy string
}

func NewSched(seed uint64) *Sched {
	sc := &Sched{reqs: make(chan *schedReq, 4096), rng: NewRand(seed), MaxSteps: 2_000_000}
	sc.active.Store(true)
	return sc
}

func (sc *Sched) Active() bool { return sc.active.Load() }

// SetActive(false) makes stores serve without parking (merge phase 1).
func (sc *Sched) SetActive(b bool) { sc.active.Store(b) }

//go:norace
func (sc *Sched) park(op, key string) {
	raceDisable()
	r := &schedReq{op: op, key: key, rel: make(chan struct{})}
	sc.reqs <- r
	<-r.rel
	raceEnable()
}

// Run drives the schedule until done is closed and nothing is pending.
// Must be called from a goroutine inside the bubble.
//
//go:norace
func (sc *Sched) Run(done <-chan struct{}) {
	raceDisable()
	defer raceEnable()
	var pending []*schedReq
	h := uint64(14695981039346656037)
	for {
		synctest.Wait()
	drain:
		for {
			select {
			case r := <-sc.reqs:
				pending = append(pending, r)
			default:
				break drain
			}
		}
		if len(pending) == 0 {
			select {
			case r := <-sc.reqs:
				pending = append(pending, r)
				continue
			case <-done:
				sc.hash = h
				return
			}
		}
		sortReqs(pending)
		if len(pending) > sc.MaxPend {
			sc.MaxPend = len(pending)
		}
		i := 0
		if len(pending) > 1 {
			sc.Choices++
			switch sc.Policy {
			case "fifo":
				i = 0
			case "lifo":
				i = len(pending) - 1
			default:
				i = sc.rng.Intn(len(pending))
			}
		}
		r := pending[i]
		pending = append(pending[:i], pending[i+1:]...)
		sc.Steps++
		h = fnvAdd(fnvAdd(h, r.op), r.key)
		if len(sc.Trace) < 400 {
			sc.Trace = append(sc.Trace, r.op+" "+r.key)
		}
		if sc.Steps > sc.MaxSteps {
			sc.Overflow = true
			sc.active.Store(false) // stop parking: let the run finish unscheduled
		}
		close(r.rel)
		if sc.Overflow {
			for _, p := range pending {
				close(p.rel)
			}
			pending = nil
		}
	}
}

func (sc *Sched) Hash() uint64 { return sc.hash }

//go:norace
func fnvAdd(h uint64, s string) uint64 {
	for i := 0; i < len(s); i++ {
		h ^= uint64(s[i])
		h *= 1099511628211
	}
	h ^= 0xff
	h *= 1099511628211
	return h
}

// sortReqs: insertion sort by (op,key); no closures, no package sort (see kit_kvmap.go).
//
//go:norace
func sortReqs(p []*schedReq) {
	for i := 1; i < len(p); i++ {
		x := p[i]
		j := i - 1
		for j >= 0 && (p[j].op > x.op || (p[j].op == x.op && p[j].key > x.key)) {
			p[j+1] = p[j]
			j--
		}
		p[j+1] = x
	}
}

// FmtKey renders "blk/<16 raw bytes>" as "blk/ab12cd34".
func FmtKey(k string) string {
	i := strings.IndexByte(k, '/')
	if i < 0 || len(k)-i-1 != 16 {
		return fmt.Sprintf("%q", k)
	}
	return fmt.Sprintf("%s%x", k[:i+1], k[i+1:i+5])
}
