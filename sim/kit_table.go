package sim

// Independent table model and structural checker (C03 monitor).
// Shares with /repo only the meow hash and s2 (both are part of the format).

import (
	"bytes"
	"encoding/binary"
	"encoding/csv"
	"fmt"
	"io"
	"sort"
	"strings"

	"github.com/klauspost/compress/s2"
	"github.com/pckhoi/meow"
	"github.com/wrgl/wrgl/pkg/diff"
	"github.com/wrgl/wrgl/pkg/objects"
)

// ---- cells: compact spec for long cells so plans stay small ----

// Cell spec: a plain string, or "~<n>~<pat>" meaning pat repeated to n bytes.
func ExpandCell(s string) string {
	if len(s) > 1 && s[0] == '~' {
		rest := s[1:]
		i := strings.IndexByte(rest, '~')
		if i > 0 {
			n := 0
			for _, c := range rest[:i] {
				if c < '0' || c > '9' {
					return s
				}
				n = n*10 + int(c-'0')
				if n > 200000 {
					return s
				}
			}
			pat := rest[i+1:]
			if pat == "" {
				pat = "x"
			}
			var b strings.Builder
			for b.Len() < n {
				b.WriteString(pat)
			}
			return b.String()[:n]
		}
	}
	return s
}

func ExpandRows(rows [][]string) [][]string {
	out := make([][]string, len(rows))
	for i, r := range rows {
		out[i] = make([]string, len(r))
		for j, c := range r {
			out[i][j] = ExpandCell(c)
		}
	}
	return out
}

// JSON cannot carry arbitrary bytes in strings: plans write a byte >= 0x80 as
// the rune U+00XX and ToBytes maps runes < 256 back to single bytes.
func ToBytes(s string) string {
	ascii := true
	for i := 0; i < len(s); i++ {
		if s[i] >= 0x80 {
			ascii = false
			break
		}
	}
	if ascii {
		return s
	}
	var b []byte
	for _, r := range s {
		if r < 256 {
			b = append(b, byte(r))
		} else {
			b = append(b, []byte(string(r))...)
		}
	}
	return string(b)
}

// ---- model ----

type MTable struct {
	Cols []string
	PK   []int // indices into Cols; empty = no key
	Rows [][]string
}

func encStrList(sl []string) []byte {
	n := 4
	for _, s := range sl {
		n += 2 + len(s)
	}
	b := make([]byte, n)
	binary.BigEndian.PutUint32(b, uint32(len(sl)))
	off := 4
	for _, s := range sl {
		binary.BigEndian.PutUint16(b[off:], uint16(len(s)))
		off += 2
		copy(b[off:], s)
		off += len(s)
	}
	return b
}

func keyOf(row []string, pk []int) []string {
	if len(pk) == 0 {
		return row
	}
	k := make([]string, len(pk))
	for i, u := range pk {
		k[i] = row[u]
	}
	return k
}

func keyStr(k []string) string { return string(encStrList(k)) }

func lessKey(a, b []string) bool {
	for i := range a {
		if i >= len(b) {
			return false
		}
		if a[i] != b[i] {
			return a[i] < b[i]
		}
	}
	return false
}

func pkIndices(cols, pk []string) ([]int, error) {
	res := make([]int, len(pk))
	for i, p := range pk {
		res[i] = -1
		for j, c := range cols {
			if c == p {
				res[i] = j
				break
			}
		}
		if res[i] < 0 {
			return nil, fmt.Errorf("pk column %q not in columns", p)
		}
	}
	return res, nil
}

// CSVText renders rows with encoding/csv (the definition of well-formed CSV).
func CSVText(cols []string, rows [][]string, delim rune) []byte {
	var buf bytes.Buffer
	w := csv.NewWriter(&buf)
	if delim != 0 {
		w.Comma = delim
	}
	w.Write(cols)
	w.WriteAll(rows)
	w.Flush()
	return buf.Bytes()
}

// ParseCSV is the oracle's independent parse of the text.
func ParseCSV(text []byte, delim rune) (cols []string, rows [][]string, err error) {
	r := csv.NewReader(bytes.NewReader(text))
	if delim != 0 {
		r.Comma = delim
	}
	all, err := r.ReadAll()
	if err != nil {
		return nil, nil, err
	}
	if len(all) == 0 {
		return nil, nil, fmt.Errorf("empty csv")
	}
	return all[0], all[1:], nil
}

// Expected is what ingesting rows under pk must yield.
type Expected struct {
	Cols   []string
	PK     []int
	Keys   [][]string            // distinct keys ascending
	ByKey  map[string][][]string // candidates for each key
	Unique bool
}

func IngestModel(cols []string, rows [][]string, pk []int) *Expected {
	e := &Expected{Cols: cols, PK: pk, ByKey: map[string][][]string{}, Unique: true}
	for _, r := range rows {
		k := keyOf(r, pk)
		ks := keyStr(k)
		if _, ok := e.ByKey[ks]; !ok {
			e.Keys = append(e.Keys, append([]string(nil), k...))
		} else {
			e.Unique = false
		}
		e.ByKey[ks] = append(e.ByKey[ks], r)
	}
	sort.SliceStable(e.Keys, func(i, j int) bool { return lessKey(e.Keys[i], e.Keys[j]) })
	return e
}

func rowsEqual(a, b []string) bool {
	if len(a) != len(b) {
		return false
	}
	for i := range a {
		if a[i] != b[i] {
			return false
		}
	}
	return true
}

// CompareToExpected checks read-back rows against the model. Returns "" if ok.
func (e *Expected) Compare(cols []string, pk []uint32, rows [][]string) (class, detail string) {
	if !rowsEqual(cols, e.Cols) {
		return "columns-differ", fmt.Sprintf("columns %q want %q", cols, e.Cols)
	}
	if len(pk) != len(e.PK) {
		return "pk-differ", fmt.Sprintf("pk %v want %v", pk, e.PK)
	}
	for i := range pk {
		if int(pk[i]) != e.PK[i] {
			return "pk-differ", fmt.Sprintf("pk %v want %v", pk, e.PK)
		}
	}
	if len(rows) != len(e.Keys) {
		// classify: dropped or duplicated
		cls := "row-dropped"
		if len(rows) > len(e.Keys) {
			cls = "row-duplicated"
		}
		return cls, fmt.Sprintf("stored %d rows, want %d distinct keys%s", len(rows), len(e.Keys), e.firstMissing(rows))
	}
	for i, r := range rows {
		k := keyOf(r, e.PK)
		if len(r) != len(e.Cols) {
			return "row-altered", fmt.Sprintf("row %d has %d cells, want %d", i, len(r), len(e.Cols))
		}
		if !rowsEqual(k, e.Keys[i]) {
			if _, ok := e.ByKey[keyStr(k)]; ok {
				return "order-wrong", fmt.Sprintf("row %d has key %s, want %s (keys must ascend)", i, clip(k), clip(e.Keys[i]))
			}
			return "row-altered", fmt.Sprintf("row %d has key %s which is not an input key (want %s)", i, clip(k), clip(e.Keys[i]))
		}
		found := false
		for _, c := range e.ByKey[keyStr(k)] {
			if rowsEqual(c, r) {
				found = true
				break
			}
		}
		if !found {
			return "row-altered", fmt.Sprintf("row %d (key %s) = %s is not cell-for-cell an input row", i, clip(k), clip(r))
		}
	}
	return "", ""
}

func (e *Expected) firstMissing(rows [][]string) string {
	have := map[string]int{}
	for _, r := range rows {
		have[keyStr(keyOf(r, e.PK))]++
	}
	for _, k := range e.Keys {
		if have[keyStr(k)] == 0 {
			return fmt.Sprintf("; first missing key %s", clip(k))
		}
		if have[keyStr(k)] > 1 {
			return fmt.Sprintf("; key %s stored %d times", clip(k), have[keyStr(k)])
		}
	}
	return ""
}

func clip(r []string) string {
	parts := make([]string, len(r))
	for i, s := range r {
		if len(s) > 24 {
			parts[i] = fmt.Sprintf("%q…(%d)", s[:12], len(s))
		} else {
			parts[i] = fmt.Sprintf("%q", s)
		}
	}
	return "[" + strings.Join(parts, ",") + "]"
}

// ---- reading a stored table without going through wrgl's readers ----

func decStrList(b []byte) (sl []string, n int, err error) {
	if len(b) < 4 {
		return nil, 0, fmt.Errorf("short strlist")
	}
	c := int(binary.BigEndian.Uint32(b))
	off := 4
	if c > len(b) {
		return nil, 0, fmt.Errorf("strlist count %d too large", c)
	}
	sl = make([]string, 0, c)
	for i := 0; i < c; i++ {
		if off+2 > len(b) {
			return nil, 0, fmt.Errorf("short strlist")
		}
		l := int(binary.BigEndian.Uint16(b[off:]))
		off += 2
		if off+l > len(b) {
			return nil, 0, fmt.Errorf("short strlist")
		}
		sl = append(sl, string(b[off:off+l]))
		off += l
	}
	return sl, off, nil
}

func decBlock(b []byte) ([][]string, error) {
	if len(b) < 4 {
		return nil, fmt.Errorf("short block")
	}
	n := int(binary.BigEndian.Uint32(b))
	if n > len(b) {
		return nil, fmt.Errorf("block count %d too large", n)
	}
	off := 4
	rows := make([][]string, 0, n)
	for i := 0; i < n; i++ {
		r, m, err := decStrList(b[off:])
		if err != nil {
			return nil, fmt.Errorf("row %d: %v", i, err)
		}
		rows = append(rows, r)
		off += m
	}
	if off != len(b) {
		return nil, fmt.Errorf("%d trailing bytes in block", len(b)-off)
	}
	return rows, nil
}

func meowSum(b []byte) []byte {
	a := meow.Checksum(0, b)
	return a[:]
}

type RawReader interface {
	Raw(key string) ([]byte, bool)
}

type mapReader map[string][]byte

func (m mapReader) Raw(k string) ([]byte, bool) { v, ok := m[k]; return v, ok }

// ReadTableRaw decodes table sum through wrgl's table decoder (metadata only)
// and the independent block decoder.
func ReadTableRaw(s RawReader, sum []byte) (tbl *objects.Table, rows [][]string, err error) {
	tb, ok := s.Raw("tbl/" + string(sum))
	if !ok {
		return nil, nil, fmt.Errorf("table %x not found", sum)
	}
	_, tbl, err = objects.ReadTableFrom(bytes.NewReader(tb))
	if err != nil {
		return nil, nil, fmt.Errorf("table %x does not decode: %v", sum, err)
	}
	for i, bs := range tbl.Blocks {
		cb, ok := s.Raw("blk/" + string(bs))
		if !ok {
			return tbl, nil, fmt.Errorf("block %d (%x) of table %x missing", i, bs, sum)
		}
		raw, err := s2.Decode(nil, cb)
		if err != nil {
			return tbl, nil, fmt.Errorf("block %d: s2: %v", i, err)
		}
		br, err := decBlock(raw)
		if err != nil {
			return tbl, nil, fmt.Errorf("block %d: %v", i, err)
		}
		rows = append(rows, br...)
	}
	return tbl, rows, nil
}

// CheckTable evaluates the structural invariants of C03 on a stored table.
// Returns (class, detail) of the first problem, or "","".
func CheckTable(s RawReader, sum []byte) (class, detail string) {
	tb, ok := s.Raw("tbl/" + string(sum))
	if !ok {
		return "table-missing", fmt.Sprintf("table %x not found", sum)
	}
	if !bytes.Equal(meowSum(tb), sum) {
		return "key-not-hash", fmt.Sprintf("table stored under %x but hashes to %x", sum, meowSum(tb))
	}
	_, tbl, err := objects.ReadTableFrom(bytes.NewReader(tb))
	if err != nil {
		return "table-undecodable", fmt.Sprintf("table %x: %v", sum, err)
	}
	nb := len(tbl.Blocks)
	if len(tbl.BlockIndices) != nb {
		return "blockindex-count", fmt.Sprintf("%d blocks, %d block indices", nb, len(tbl.BlockIndices))
	}
	pk := make([]int, len(tbl.PK))
	for i, u := range tbl.PK {
		if int(u) >= len(tbl.Columns) {
			return "pk-out-of-range", fmt.Sprintf("pk %v with %d columns", tbl.PK, len(tbl.Columns))
		}
		pk[i] = int(u)
	}
	total := 0
	var prevKey []string
	var firstKeys [][]string
	for i, bs := range tbl.Blocks {
		cb, ok := s.Raw("blk/" + string(bs))
		if !ok {
			return "block-missing", fmt.Sprintf("block %d (%x) missing", i, bs)
		}
		raw, err := s2.Decode(nil, cb)
		if err != nil {
			return "block-undecodable", fmt.Sprintf("block %d: s2: %v", i, err)
		}
		if !bytes.Equal(meowSum(raw), bs) {
			return "key-not-hash", fmt.Sprintf("block %d stored under %x but hashes to %x", i, bs, meowSum(raw))
		}
		rows, err := decBlock(raw)
		if err != nil {
			return "block-undecodable", fmt.Sprintf("block %d: %v", i, err)
		}
		n := len(rows)
		if n == 0 || n > 255 || (i < nb-1 && n != 255) {
			return "block-size", fmt.Sprintf("block %d/%d has %d rows", i, nb, n)
		}
		total += n
		// block index recomputed independently
		want := make([][]byte, n)
		for j, r := range rows {
			if len(r) != len(tbl.Columns) {
				return "row-width", fmt.Sprintf("block %d row %d has %d cells, table has %d columns", i, j, len(r), len(tbl.Columns))
			}
			k := keyOf(r, pk)
			if prevKey != nil && !lessKey(prevKey, k) {
				return "keys-not-increasing", fmt.Sprintf("block %d row %d key %s does not follow %s", i, j, clip(k), clip(prevKey))
			}
			prevKey = append(prevKey[:0], k...)
			rs := meowSum(encStrList(r))
			ks := rs
			if len(pk) > 0 {
				ks = meowSum(encStrList(k))
			}
			want[j] = append(append([]byte{}, ks...), rs...)
		}
		firstKeys = append(firstKeys, append([]string(nil), keyOf(rows[0], pk)...))
		is := tbl.BlockIndices[i]
		cib, ok := s.Raw("blkidx/" + string(is))
		if !ok {
			return "blockindex-missing", fmt.Sprintf("block index %d (%x) missing", i, is)
		}
		ib, err := s2.Decode(nil, cib)
		if err != nil {
			return "blockindex-undecodable", fmt.Sprintf("block index %d: s2: %v", i, err)
		}
		if !bytes.Equal(meowSum(ib), is) {
			return "key-not-hash", fmt.Sprintf("block index %d stored under %x but hashes to %x", i, is, meowSum(ib))
		}
		if len(ib) != 1+n+32*n || int(ib[0]) != n {
			return "blockindex-wrong", fmt.Sprintf("block index %d: %d bytes, count byte %d, block has %d rows", i, len(ib), ib[0], n)
		}
		so := ib[1 : 1+n]
		seen := make([]bool, n)
		for j := 0; j < n; j++ {
			ent := ib[1+n+32*j : 1+n+32*(j+1)]
			if !bytes.Equal(ent, want[j]) {
				return "blockindex-wrong", fmt.Sprintf("block index %d entry %d does not match hash(key)|hash(row) of row %d", i, j, j)
			}
			if int(so[j]) >= n || seen[so[j]] {
				return "blockindex-wrong", fmt.Sprintf("block index %d: sorted offsets are not a permutation", i)
			}
			seen[so[j]] = true
			if j > 0 && string(want[so[j-1]][:16]) > string(want[so[j]][:16]) {
				return "blockindex-wrong", fmt.Sprintf("block index %d: sorted offsets not sorted by key hash", i)
			}
		}
	}
	if total != int(tbl.RowsCount) {
		return "rowcount-mismatch", fmt.Sprintf("recorded %d rows, blocks hold %d", tbl.RowsCount, total)
	}
	// table index
	tib, ok := s.Raw("tblidx/" + string(sum))
	if !ok {
		return "tableindex-missing", fmt.Sprintf("table index of %x missing", sum)
	}
	ti, err := decBlock(tib)
	if err != nil {
		return "tableindex-undecodable", fmt.Sprintf("table index: %v", err)
	}
	if len(ti) != nb {
		return "tableindex-wrong", fmt.Sprintf("table index has %d entries for %d blocks", len(ti), nb)
	}
	for i := range ti {
		if !rowsEqual(ti[i], firstKeys[i]) {
			return "tableindex-wrong", fmt.Sprintf("table index entry %d = %s, first key of block = %s", i, clip(ti[i]), clip(firstKeys[i]))
		}
	}
	return "", ""
}

func newMeow() *meow.Digest { return meow.New(0) }

// NormaliseCSV returns the rows an independent encoding/csv parse of the
// rendered text yields.
func NormaliseCSV(cols []string, rows [][]string) [][]string {
	_, r, err := ParseCSV(CSVText(cols, rows, ','), ',')
	if err != nil {
		return rows
	}
	return r
}

// sameRows: two row lists are equal cell for cell.
func sameRows(a, b [][]string) bool {
	if len(a) != len(b) {
		return false
	}
	for i := range a {
		if !rowsEqual(a[i], b[i]) {
			return false
		}
	}
	return true
}

// CheckRowReaders reads a stored table back by row position through the repository's positional
// readers (diff.TableReader: sequential + Seek; diff.RowListReader: a list of row offsets) and
// compares every row with the row the raw decode of the blocks has at that position. Both readers
// turn a row offset into (block, offset in block) assuming that every block but the last is full.
func CheckRowReaders(st objects.Store, sum []byte, r *Rand) (class, detail string) {
	raw, ok := st.(RawReader)
	if !ok {
		return "", ""
	}
	_, want, err := ReadTableRaw(raw, sum)
	if err != nil {
		return "", "" // CheckTable reports this
	}
	tbl, err := objects.GetTable(st, sum)
	if err != nil {
		return "reader-error", fmt.Sprintf("GetTable: %v", err)
	}
	n := len(want)
	tr, err := diff.NewTableReader(st, tbl)
	if err != nil {
		return "reader-error", fmt.Sprintf("NewTableReader: %v", err)
	}
	if tr.Len() != n {
		return "reader-len", fmt.Sprintf("TableReader.Len() = %d, the table has %d rows", tr.Len(), n)
	}
	// positions: block edges, ends, and seeded ones
	pos := []int{0, 1, 253, 254, 255, 256, 509, 510, 511, n - 2, n - 1}
	for i := 0; i < 12; i++ {
		if n > 0 {
			pos = append(pos, r.Intn(n))
		}
	}
	cur := 0
	for _, p := range pos {
		if p < 0 || p >= n {
			continue
		}
		var got int
		switch r.Intn(3) {
		case 0:
			got, err = tr.Seek(p, io.SeekStart)
		case 1:
			got, err = tr.Seek(p-cur, io.SeekCurrent)
		default:
			got, err = tr.Seek(p-n, io.SeekEnd)
		}
		if err != nil || got != p {
			return "reader-seek", fmt.Sprintf("TableReader.Seek to row %d of %d: position %d, err %v", p, n, got, err)
		}
		// a short sequential run from there (crosses a block edge when p is just before one)
		for k := 0; k < 3 && p+k < n; k++ {
			row, err := tr.Read()
			if err != nil {
				return "reader-error", fmt.Sprintf("TableReader.Read at row %d of %d: %v", p+k, n, err)
			}
			if !rowsEqual(row, want[p+k]) {
				return "reader-row-wrong", fmt.Sprintf("TableReader row %d of %d = %s, the table holds %s there", p+k, n, clip(row), clip(want[p+k]))
			}
		}
		cur = min(p+3, n)
	}
	if _, err := tr.Seek(0, io.SeekEnd); err != nil {
		return "reader-seek", fmt.Sprintf("TableReader.Seek to the end: %v", err)
	}
	if row, err := tr.Read(); err != io.EOF {
		return "reader-eof", fmt.Sprintf("TableReader.Read past the last of %d rows: row %s, err %v (want io.EOF)", n, clip(row), err)
	}
	lr, err := diff.NewRowListReader(st, tbl)
	if err != nil {
		return "reader-error", fmt.Sprintf("NewRowListReader: %v", err)
	}
	var offs []int
	for _, p := range pos {
		if p >= 0 && p < n {
			offs = append(offs, p)
			lr.Add(uint32(p))
		}
	}
	if lr.Len() != len(offs) {
		return "reader-len", fmt.Sprintf("RowListReader.Len() = %d after %d Add", lr.Len(), len(offs))
	}
	for i, p := range offs {
		row, err := lr.Read()
		if err != nil {
			return "reader-error", fmt.Sprintf("RowListReader.Read #%d (row %d of %d): %v", i, p, n, err)
		}
		if !rowsEqual(row, want[p]) {
			return "reader-row-wrong", fmt.Sprintf("RowListReader row %d of %d = %s, the table holds %s there", p, n, clip(row), clip(want[p]))
		}
	}
	if row, err := lr.Read(); err != io.EOF {
		return "reader-eof", fmt.Sprintf("RowListReader.Read past its list: row %s, err %v (want io.EOF)", clip(row), err)
	}
	if len(offs) > 0 {
		k := r.Intn(len(offs))
		if _, err := lr.Seek(k, io.SeekStart); err != nil {
			return "reader-seek", fmt.Sprintf("RowListReader.Seek: %v", err)
		}
		row, err := lr.Read()
		if err != nil || !rowsEqual(row, want[offs[k]]) {
			return "reader-row-wrong", fmt.Sprintf("RowListReader after Seek(%d): row %s err %v, the table holds %s at row %d", k, clip(row), err, clip(want[offs[k]]), offs[k])
		}
	}
	return "", ""
}
