package sim

// C05 (columns added next to other changes): two situations the constructive scenarios of c05_merge.go keep apart.
//
// sameadd: both branches add the same new row (a key the base does not have, identical cells), and one of them
// also adds a column with a value in every row. Exactly one distinct change was made to that row's new cell, so
// the merged row carries it - whichever branch is listed first.
//
// samecol: both branches add a column of the same name. For a row of the base the two branches' cells in it are
// equal (one distinct change: that value) or different, one possibly empty (the same cell changed differently: a
// reported conflict on that column, never a silent pick).

import (
	"encoding/json"
	"fmt"
	"testing"
)

type C05ColPlan struct {
	N         int      `json:"n"`       // base rows
	NCols     int      `json:"ncols"`   // non-key columns
	KeyPos    int      `json:"key_pos"` // where the key column sits
	Mode      string   `json:"mode"`    // sameadd | samecol | remlayout (one branch removes a row, the other renames a column and leaves every cell alone)
	RemRow    int      `json:"rem_row"` // remlayout: the row removed
	ExtraB    int      `json:"extra_b"` // sameadd: the branch that adds the column
	ExtraAt   int      `json:"extra_at"`
	OtherEdit bool     `json:"other_edit"` // sameadd: the other branch edits a cell of the first base row
	NewRows   int      `json:"new_rows"`   // sameadd: rows added by both branches (1..3)
	ValsA     []string `json:"vals_a,omitempty"`
	ValsB     []string `json:"vals_b,omitempty"`
	AtA       int      `json:"at_a"`
	AtB       int      `json:"at_b"`
	Swap      bool     `json:"swap"` // list branch 1 first
	HashBatch uint32   `json:"hash_batch"`
	Output    string   `json:"output"`
	Workers   int      `json:"workers"`
}

func init() {
	Register(&Profile{
		ID: "C05col", Prop: "C05",
		Rule: "two branches over a keyed base (1-300 rows, key at any position): (sameadd) both add the same 1-3 new rows and one also adds a column with a value in every row - the new rows keep that value whichever branch is listed first; (samecol) both add a column of the same name with per-row cells drawn from {\"\", v, w}: equal cells resolve to the value, different cells (also empty against a value) are reported as a conflict on that column; everything else must come out as in the base; non-trivial = every case",
		Gen: func(seed uint64, tier string) any {
			r := NewRand(seed)
			p := C05ColPlan{N: Pick(r, []int{1, 2, 3, 8, 8, 20, 255, 256, 300}), NCols: r.Range(1, 3), Mode: Pick(r, []string{"sameadd", "samecol", "remlayout"}),
				ExtraB: r.Intn(2), OtherEdit: r.Chance(0.5), NewRows: r.Range(1, 3), Swap: r.Chance(0.5),
				HashBatch: Pick(r, []uint32{0, 1, 2, 7}), Output: Pick(r, []string{"blocks", "rows"}), Workers: Pick(r, []int{1, 4})}
			p.KeyPos = r.Intn(p.NCols + 1)
			p.RemRow = r.Intn(p.N)
			p.ExtraAt, p.AtA, p.AtB = r.Intn(p.NCols+2), r.Intn(p.NCols+2), r.Intn(p.NCols+2)
			if r.Chance(0.6) {
				p.AtB = p.AtA
			}
			if p.Mode == "samecol" {
				vals := []string{"", "", "v", "v", "w"}
				for i := 0; i < p.N; i++ {
					a := Pick(r, vals)
					b := a
					if r.Chance(0.3) || (p.N <= 3 && r.Chance(0.5)) {
						b = Pick(r, vals)
					}
					p.ValsA, p.ValsB = append(p.ValsA, a), append(p.ValsB, b)
				}
			}
			return p
		},
		Exec: execC05Col,
	})
}

func execC05Col(t *testing.T, raw json.RawMessage, res *Result) {
	var p C05ColPlan
	if err := json.Unmarshal(raw, &p); err != nil {
		res.Invalid("plan: %v", err)
		return
	}
	if p.N < 1 || p.N > 1000 || p.NCols < 1 || p.NCols > 6 || p.KeyPos < 0 || p.KeyPos > p.NCols || (p.Mode != "sameadd" && p.Mode != "samecol" && p.Mode != "remlayout") || p.RemRow < 0 || p.RemRow >= p.N ||
		p.ExtraB < 0 || p.ExtraB > 1 || p.ExtraAt < 0 || p.ExtraAt > p.NCols+1 || p.AtA < 0 || p.AtA > p.NCols+1 || p.AtB < 0 || p.AtB > p.NCols+1 ||
		p.NewRows < 0 || p.NewRows > 10 || (p.Output != "blocks" && p.Output != "rows") || p.Workers < 1 || p.Workers > 16 {
		res.Invalid("plan out of range")
		return
	}
	if p.Mode == "samecol" && (len(p.ValsA) != p.N || len(p.ValsB) != p.N) {
		res.Invalid("vals")
		return
	}
	for _, v := range append(append([]string(nil), p.ValsA...), p.ValsB...) {
		if len(v) > 40 || NormaliseCSV([]string{"x", "y"}, [][]string{{"k", v}})[0][1] != v {
			res.Invalid("val")
			return
		}
	}
	// base
	var cols []string
	for j := 0; j <= p.NCols; j++ {
		switch {
		case j == p.KeyPos:
			cols = append(cols, "id")
		case j < p.KeyPos:
			cols = append(cols, fmt.Sprintf("c%d", j))
		default:
			cols = append(cols, fmt.Sprintf("c%d", j-1))
		}
	}
	pk := []string{"id"}
	mk := func(id string, tag string) []string {
		row := make([]string, len(cols))
		for j, c := range cols {
			if c == "id" {
				row[j] = id
			} else {
				row[j] = tag + "_" + c + "_" + id
			}
		}
		return row
	}
	var rows [][]string
	for i := 0; i < p.N; i++ {
		rows = append(rows, mk(fmt.Sprintf("k%04d", i), "b"))
	}
	insertCol := func(cs []string, rs [][]string, at int, name string, val func(row []string) string) ([]string, [][]string) {
		if at > len(cs) {
			at = len(cs)
		}
		idAt := -1
		for j, c := range cs {
			if c == "id" {
				idAt = j
			}
		}
		_ = idAt
		ncs := append(append(append([]string(nil), cs[:at]...), name), cs[at:]...)
		nrs := make([][]string, len(rs))
		for i, r := range rs {
			nrs[i] = append(append(append([]string(nil), r[:at]...), val(r)), r[at:]...)
		}
		return ncs, nrs
	}
	idOf := func(cs []string, r []string) string {
		for j, c := range cs {
			if c == "id" {
				return r[j]
			}
		}
		return ""
	}
	type bt struct {
		cols []string
		rows [][]string
	}
	br := make([]bt, 2)
	expected := map[string]map[string]string{} // id -> column -> value
	conflictIDs := map[string]bool{}
	newCol := ""
	for i, r := range rows {
		e := map[string]string{}
		for j, c := range cols {
			e[c] = r[j]
		}
		expected[fmt.Sprintf("k%04d", i)] = e
	}
	switch p.Mode {
	case "sameadd":
		newCol = "extra"
		for b := 0; b < 2; b++ {
			rs := make([][]string, len(rows))
			for i := range rows {
				rs[i] = append([]string(nil), rows[i]...)
			}
			for k := 0; k < p.NewRows; k++ {
				rs = append(rs, mk(fmt.Sprintf("%szz-same%d", []string{"", "0", "m"}[k%3], k), "s"))
			}
			br[b] = bt{append([]string(nil), cols...), rs}
		}
		for k := 0; k < p.NewRows; k++ {
			r := mk(fmt.Sprintf("%szz-same%d", []string{"", "0", "m"}[k%3], k), "s")
			e := map[string]string{}
			for j, c := range cols {
				e[c] = r[j]
			}
			expected[idOf(cols, r)] = e
		}
		if p.OtherEdit {
			// the first non-key cell of the first base row
			for j, c := range cols {
				if c != "id" {
					br[1-p.ExtraB].rows[0][j] = "EDITED"
					expected["k0000"][c] = "EDITED"
					break
				}
			}
		}
		x := &br[p.ExtraB]
		x.cols, x.rows = insertCol(x.cols, x.rows, p.ExtraAt, "extra", func(r []string) string { return "X:" + idOf(cols, r) })
		for id, e := range expected {
			e["extra"] = "X:" + id
		}
	case "remlayout":
		// branch 0 removes a row; branch 1 renames the first non-key column and leaves every cell where it is, so its
		// rows are byte for byte the base's. "One removed a row another modified" - the row's cell now sits under
		// another column name - is a conflict to report, never a silent removal.
		old := ""
		for _, c := range cols {
			if c != "id" {
				old = c
				break
			}
		}
		newCol = old + "_renamed"
		for b := 0; b < 2; b++ {
			var rs [][]string
			for i := range rows {
				if b == 0 && i == p.RemRow {
					continue
				}
				rs = append(rs, append([]string(nil), rows[i]...))
			}
			bc := append([]string(nil), cols...)
			if b == 1 {
				for j := range bc {
					if bc[j] == old {
						bc[j] = newCol
					}
				}
			}
			br[b] = bt{bc, rs}
		}
		for id, e := range expected {
			e[newCol] = e[old]
			delete(e, old)
			_ = id
		}
		conflictIDs[fmt.Sprintf("k%04d", p.RemRow)] = true
	case "samecol":
		newCol = "note"
		vals := [][]string{p.ValsA, p.ValsB}
		ats := []int{p.AtA, p.AtB}
		for b := 0; b < 2; b++ {
			rs := make([][]string, len(rows))
			for i := range rows {
				rs[i] = append([]string(nil), rows[i]...)
			}
			i := -1
			c2, r2 := insertCol(cols, rs, ats[b], "note", func(r []string) string { i++; return vals[b][i] })
			br[b] = bt{c2, r2}
		}
		for i := 0; i < p.N; i++ {
			id := fmt.Sprintf("k%04d", i)
			if p.ValsA[i] == p.ValsB[i] {
				expected[id]["note"] = p.ValsA[i]
			} else {
				conflictIDs[id] = true
			}
		}
	}
	w := &World{}
	st := NewStore("L", w)
	baseSum, err := ingestPlain(t, st, cols, pk, rows)
	if err != nil {
		res.Invalid("ingest base: %v", err)
		return
	}
	order := []int{0, 1}
	if p.Swap {
		order = []int{1, 0}
	}
	sums := make([][]byte, 2)
	for i, b := range order {
		sums[i], err = ingestPlain(t, st, br[b].cols, pk, br[b].rows)
		if err != nil {
			res.Invalid("ingest branch: %v", err)
			return
		}
	}
	var out *mergeOutcome
	var mErr error
	bo := Bubble(t, 0, func(mainDone *bool) {
		out, mErr = runMerge(t, st, baseSum, sums, p.HashBatch, p.Output, p.Workers)
		*mainDone = true
	})
	if bubbleProblems(res, bo, "merge") {
		return
	}
	if mErr != nil {
		res.Violate("merge-error", "merge failed: %v", mErr)
		return
	}
	hashToID := map[string]string{}
	for id := range expected {
		hashToID[string(meowSum(encStrList([]string{id})))] = id
	}
	for id := range conflictIDs {
		hashToID[string(meowSum(encStrList([]string{id})))] = id
	}
	reported := map[string]bool{}
	for _, m := range out.Conflicts {
		id, ok := hashToID[string(m.PK)]
		if !ok {
			res.Violate("conflict-unknown-key", "a conflict is reported for a key hash that belongs to no row")
			return
		}
		if !conflictIDs[id] {
			res.Violate("spurious-conflict", "%s: conflict reported for key %q although exactly one distinct change was made to each of its cells (unresolved cols %v of %v)", p.Mode, id, m.UnresolvedCols, out.CD.Names)
			return
		}
		if m.Resolved {
			res.Violate("silent-pick", "%s: the conflict on key %q is marked resolved", p.Mode, id)
			return
		}
		want := -1
		for x, name := range out.CD.Names {
			if name == newCol {
				want = x
			}
		}
		if _, ok := m.UnresolvedCols[uint32(want)]; !ok && p.Mode != "remlayout" {
			res.Violate("conflict-wrong-column", "conflict on key %q does not mark column %q unresolved (unresolved: %v of %v)", id, newCol, m.UnresolvedCols, out.CD.Names)
			return
		}
		reported[id] = true
	}
	for id := range conflictIDs {
		if !reported[id] {
			if p.Mode == "remlayout" {
				res.Violate("silent-pick", "one branch removed the row with key %q, the other renamed a column (the row's cell now sits under %q): no conflict was reported", id, newCol)
				return
			}
			i := 0
			fmt.Sscanf(id, "k%04d", &i)
			res.Violate("silent-pick", "both branches add column %q; for key %q one holds %q and the other %q, but no conflict was reported", newCol, id, p.ValsA[i], p.ValsB[i])
			return
		}
	}
	gotCols := map[string]int{}
	for x, c := range out.Cols {
		if _, dup := gotCols[c]; dup {
			res.Violate("columns-wrong", "merged columns %q contain a duplicate", out.Cols)
			return
		}
		gotCols[c] = x
	}
	wantCols := append(append([]string(nil), cols...), newCol)
	if p.Mode == "remlayout" {
		wantCols = nil
		for _, c := range cols {
			if c+"_renamed" == newCol {
				c = newCol
			}
			wantCols = append(wantCols, c)
		}
	}
	if len(gotCols) != len(wantCols) {
		res.Violate("columns-wrong", "merged columns %q, expected the set %q", out.Cols, wantCols)
		return
	}
	for _, c := range wantCols {
		if _, ok := gotCols[c]; !ok {
			res.Violate("columns-wrong", "merged columns %q lack %q", out.Cols, c)
			return
		}
	}
	seen := map[string]bool{}
	for _, r := range out.Rows {
		if len(r) != len(out.Cols) {
			res.Violate("ragged-row", "merged row has %d cells under %d columns", len(r), len(out.Cols))
			return
		}
		id := r[gotCols["id"]]
		if seen[id] {
			res.Violate("row-duplicated", "key %q appears twice in the merge result", id)
			return
		}
		seen[id] = true
		e, ok := expected[id]
		if !ok {
			res.Violate("unexpected-row", "merge result contains key %q which no branch has", id)
			return
		}
		for name, x := range gotCols {
			if conflictIDs[id] && (name == newCol || p.Mode == "remlayout") {
				continue // whatever the accepted resolution put there
			}
			if r[x] != e[name] {
				res.Violate("cell-wrong", "%s (branch %d listed first): key %q column %q = %q, expected %q", p.Mode, order[0], id, name, r[x], e[name])
				return
			}
		}
	}
	for id := range expected {
		if !seen[id] && !(p.Mode == "remlayout" && conflictIDs[id]) {
			res.Violate("row-missing", "key %q is absent from the merge result", id)
			return
		}
	}
	if out.TableSum != nil {
		if c, d := CheckTable(st, out.TableSum); c != "" {
			res.Violate("c03-"+c, "merge result table: %s", d)
			return
		}
	}
	res.stat("sim_steps", float64(w.Steps))
	res.probe("mode_"+p.Mode, 1)
	if len(conflictIDs) > 0 {
		res.probe("same_column_different_cells", 1)
	}
	res.Nontrivial = true
}
