package sim

// Repository generator: a commit DAG whose commits carry real, ingested tables
// drawn from a small pool of variants of one base table (so blocks are shared).

import (
	"fmt"
	"testing"
)

type RepoSpec struct {
	Graph    GraphSpec `json:"graph"`
	Base     SynthSpec `json:"base"`
	Variants [][]Edit  `json:"variants"` // variant 0 = base itself (no edits) is implicit
	TableOf  []int     `json:"table_of"` // per commit: index into variants (0 = base)
	AltPK    []bool    `json:"alt_pk,omitempty"` // per commit: use the variant ingested under the composite key (id, c1): same blocks, other indices
}

func GenRepoSpec(r *Rand, maxCommits, maxRows int) RepoSpec {
	n := r.Range(1, maxCommits)
	sp := RepoSpec{Graph: GenGraph(r.Sub("graph"), n)}
	rows := r.Range(1, 20)
	if r.Chance(0.35) {
		rows = Pick(r, []int{254, 255, 256, 300, 511, 600})
		if rows > maxRows {
			rows = maxRows
		}
	}
	sp.Base = SynthSpec{N: rows, NCols: r.Range(2, 4), Seed: r.Uint64()}
	if r.Chance(0.12) {
		sp.Base.Big = Pick(r, []int{65535, 65534, 65533, 32768, 300})
	}
	cols, pk, _ := sp.Base.Build()
	nv := r.Range(1, 4)
	for v := 0; v < nv; v++ {
		sp.Variants = append(sp.Variants, genRowEdits(r.Sub(fmt.Sprintf("v%d", v)), cols, pk, rows, 4))
	}
	sp.TableOf = make([]int, n)
	for i := range sp.TableOf {
		sp.TableOf[i] = r.Intn(nv + 1)
	}
	if r.Chance(0.3) {
		sp.AltPK = make([]bool, n)
		for i := range sp.AltPK {
			sp.AltPK[i] = r.Chance(0.5)
		}
	}
	return sp
}

func (sp *RepoSpec) Validate() error {
	if err := sp.Graph.Validate(); err != nil {
		return err
	}
	if sp.Base.N < 0 || sp.Base.N > 3000 || sp.Base.NCols > 8 || len(sp.Variants) > 12 {
		return fmt.Errorf("repo spec out of range")
	}
	for _, v := range sp.Variants {
		if len(v) > 400 {
			return fmt.Errorf("too many edits")
		}
		for _, e := range v {
			if e.Op != "setcell" && e.Op != "delrow" && e.Op != "addrow" {
				return fmt.Errorf("row-level edits only")
			}
		}
	}
	return nil
}

type BuiltRepo struct {
	Commits   [][]byte // sums per graph node
	Tables    [][]byte // sums per variant (0 = base)
	AltTables [][]byte // same variants ingested under pk (id, c1); nil entries where not built
	TableRows [][][]string
	Cols, PK  []string
}

// Build ingests the table pool into st (real pipeline) and writes the commits.
func (sp *RepoSpec) Build(t *testing.T, st *Store) (*BuiltRepo, error) {
	cols, pk, rows := sp.Base.Build()
	br := &BuiltRepo{Cols: cols, PK: pk}
	variants := append([][]Edit{nil}, sp.Variants...)
	for _, ed := range variants {
		_, _, rs := ApplyEdits(cols, pk, rows, ed)
		rs = NormaliseCSV(cols, DedupeByKey(cols, pk, rs))
		sum, err := ingestPlain(t, st, cols, pk, rs)
		if err != nil {
			return nil, fmt.Errorf("ingest variant: %v", err)
		}
		br.Tables = append(br.Tables, sum)
		br.TableRows = append(br.TableRows, rs)
		var alt []byte
		if len(sp.AltPK) > 0 && len(cols) >= 2 {
			alt, err = ingestPlain(t, st, cols, []string{cols[0], cols[1]}, rs)
			if err != nil {
				return nil, fmt.Errorf("ingest alt variant: %v", err)
			}
		}
		br.AltTables = append(br.AltTables, alt)
	}
	var err error
	br.Commits, err = sp.Graph.Materialise(st, func(i int) []byte {
		v := 0
		if i < len(sp.TableOf) {
			v = sp.TableOf[i]
		}
		if v < 0 || v >= len(br.Tables) {
			v = 0
		}
		if i < len(sp.AltPK) && sp.AltPK[i] && br.AltTables[v] != nil {
			return br.AltTables[v]
		}
		return br.Tables[v]
	})
	return br, err
}
