package sim

// C08: the closed-sets finder driven as a two-party, multi-round protocol
// against a graph model (closure, parent-first order, reachability, depth
// limited table selection, refusal of unreachable wants, step budget).

import (
	"encoding/json"
	"errors"
	"fmt"
	"testing"

	apiutils "github.com/wrgl/wrgl/pkg/api/utils"
)

type C08Plan struct {
	Graph    GraphSpec `json:"graph"`
	Refs     []int     `json:"refs"`     // server ref tips
	RefKinds []string  `json:"ref_kinds,omitempty"` // per ref: "" / head, tag, remote (remotes/origin/..), tx, custom: every ref counts
	// Fault: a read of the server's object store fails once; the call that met it is repeated on the same finder,
	// and the final answer must be what a fault-free negotiation gives
	Fault *Fault `json:"fault,omitempty"`
	NoTable  []int     `json:"no_table"` // shallow commits on the server (table absent)
	Wants    []int     `json:"wants"`
	Haves    [][]int   `json:"haves"` // batches; -1-k = unknown hash k
	Depth    int       `json:"depth"`
	Repeat   int       `json:"repeat"`
	// LateWants arrive with the second request of the session; between the first and the second request the
	// server's refs change: ref DelRef-1 (index into Refs) is deleted, a new ref is put on commit AddRef-1.
	// Reachability of a want is judged against the refs as they are when it arrives.
	LateWants []int `json:"late_wants,omitempty"`
	DelRef    int   `json:"del_ref,omitempty"`
	AddRef    int   `json:"add_ref,omitempty"`
	// TablesFirst: ask for the tables before the commits (an upload-pack server negotiates tables first)
	TablesFirst bool `json:"tables_first,omitempty"`
}

func init() {
	Register(&Profile{
		ID: "C08", Prop: "C08",
		Rule: "server history DAG (<=48 commits, merges, several roots, diamond chains, clock-skewed times) x ref tips x want sets x multi-round have batches (incl. unknown hashes, haves not reachable from refs) x depth 0..3 x shallow commits; real ClosedSetsFinder.Process per round, then CommitsToSend/TablesToSend vs graph model; each case repeated (map-order nondeterminism) ; non-trivial = >=2 rounds or >=1 ack with >=1 merge commit sent; distinct by plan hash",
		Gen: func(seed uint64, tier string) any {
			r := NewRand(seed)
			n := r.Range(1, 48)
			if r.Chance(0.4) {
				n = r.Range(1, 12)
			}
			g := GenGraph(r.Sub("graph"), n)
			p := C08Plan{Graph: g, Depth: Pick(r, []int{0, 0, 0, 1, 2, 3}), Repeat: 4}
			nr := r.Range(1, 3)
			for i := 0; i < nr; i++ {
				p.Refs = append(p.Refs, r.Intn(n))
			}
			if r.Chance(0.5) {
				p.Refs = append(p.Refs, n-1)
			}
			if r.Chance(0.15) {
				p.NoTable = append(p.NoTable, r.Intn(n))
			}
			if r.Chance(0.5) {
				for range p.Refs {
					p.RefKinds = append(p.RefKinds, Pick(r, []string{"head", "head", "tag", "remote", "remote", "tx", "custom"}))
				}
			}
			if r.Chance(0.2) {
				p.Fault = &Fault{Op: "get", Prefix: "com/", Nth: r.Range(1, 40)}
			}
			reach := g.Reach()
			var reachable []int
			{
				seen := map[int]bool{}
				for _, x := range p.Refs {
					for a := range reach[x] {
						seen[a] = true
					}
				}
				for i := 0; i < n; i++ {
					if seen[i] {
						reachable = append(reachable, i)
					}
				}
			}
			nw := r.Range(1, 3)
			for i := 0; i < nw; i++ {
				switch x := r.Intn(100); {
				case x < 70:
					p.Wants = append(p.Wants, Pick(r, p.Refs))
				case x < 92:
					p.Wants = append(p.Wants, Pick(r, reachable))
				default:
					p.Wants = append(p.Wants, r.Intn(n))
				}
			}
			nb := r.Range(0, 4)
			for b := 0; b < nb; b++ {
				var batch []int
				for k := r.Range(0, 4); k > 0; k-- {
					if r.Chance(0.12) {
						batch = append(batch, -1-r.Intn(3))
					} else {
						batch = append(batch, r.Intn(n))
					}
				}
				p.Haves = append(p.Haves, batch)
			}
			p.TablesFirst = r.Chance(0.4)
			if p.Fault == nil && len(p.Haves) >= 2 && r.Chance(0.25) {
				// the refs change between the first and the second request, and the second request brings further wants
				if r.Chance(0.6) {
					p.DelRef = 1 + r.Intn(len(p.Refs))
				}
				if r.Chance(0.6) {
					p.AddRef = 1 + r.Intn(n)
				}
				for k := r.Range(1, 2); k > 0; k-- {
					switch {
					case p.DelRef > 0 && r.Chance(0.5):
						p.LateWants = append(p.LateWants, p.Refs[p.DelRef-1])
					case p.AddRef > 0 && r.Chance(0.7):
						p.LateWants = append(p.LateWants, p.AddRef-1)
					default:
						p.LateWants = append(p.LateWants, Pick(r, p.Refs))
					}
				}
			}
			return p
		},
		Exec: execC08,
	})
}

func execC08(t *testing.T, raw json.RawMessage, res *Result) {
	var p C08Plan
	if err := json.Unmarshal(raw, &p); err != nil {
		res.Invalid("plan: %v", err)
		return
	}
	if err := p.Graph.Validate(); err != nil || p.Graph.N() == 0 || p.Graph.N() > 120 {
		res.Invalid("plan: graph %v", err)
		return
	}
	n := p.Graph.N()
	okIdx := func(xs []int, allowNeg bool) bool {
		for _, x := range xs {
			if x >= n || (x < 0 && !allowNeg) || x < -8 {
				return false
			}
		}
		return true
	}
	if !okIdx(p.Refs, false) || !okIdx(p.Wants, false) || !okIdx(p.NoTable, false) || len(p.Refs) == 0 || len(p.Wants) == 0 || len(p.Haves) > 12 || p.Depth < 0 || p.Depth > 8 {
		res.Invalid("plan: indices")
		return
	}
	for _, b := range p.Haves {
		if !okIdx(b, true) || len(b) > 64 {
			res.Invalid("plan: haves")
			return
		}
	}
	rep := p.Repeat
	if rep < 1 {
		rep = 1
	}
	if rep > 8 {
		rep = 8
	}
	g := &p.Graph
	anc := g.Reach()
	noTable := map[int]bool{}
	for _, x := range p.NoTable {
		noTable[x] = true
	}
	w := &World{}
	st := NewStore("S", w)
	sums, err := g.Materialise(st, nil)
	if err != nil {
		res.Invalid("%v", err)
		return
	}
	idx := map[string]int{}
	tableOf := map[int]string{}
	for i, s := range sums {
		idx[string(s)] = i
		tb := meowSum([]byte(fmt.Sprintf("table-%d", i)))
		tableOf[i] = string(tb)
		if !noTable[i] {
			st.RawSet("tbl/"+string(tb), []byte("x"))
		}
	}
	rs := NewMemRef()
	reachable := map[int]bool{}
	var refNames []string
	for k, x := range p.Refs {
		name := fmt.Sprintf("heads/b%d", k)
		if k < len(p.RefKinds) {
			switch p.RefKinds[k] {
			case "", "head":
			case "tag":
				name = fmt.Sprintf("tags/t%d", k)
			case "remote":
				name = fmt.Sprintf("remotes/origin/b%d", k)
			case "tx":
				name = fmt.Sprintf("txs/a0b1c2d3-0000-4000-8000-0000000000c8/b%d", k)
			case "custom":
				name = fmt.Sprintf("mirror/b%d", k)
			default:
				res.Invalid("ref kind")
				return
			}
		}
		rs.Set(name, sums[x])
		refNames = append(refNames, name)
		for a := range anc[x] {
			reachable[a] = true
		}
	}
	// the refs as they are from the second request on
	if p.DelRef < 0 || p.DelRef > len(p.Refs) || p.AddRef < 0 || p.AddRef > n || !okIdx(p.LateWants, false) || len(p.LateWants) > 8 ||
		((len(p.LateWants) > 0 || p.DelRef > 0 || p.AddRef > 0) && (len(p.Haves) < 2 || p.Fault != nil)) {
		res.Invalid("plan: late wants / ref change")
		return
	}
	reachable2 := map[int]bool{}
	for k, x := range p.Refs {
		if k == p.DelRef-1 {
			continue
		}
		for a := range anc[x] {
			reachable2[a] = true
		}
	}
	if p.AddRef > 0 {
		for a := range anc[p.AddRef-1] {
			reachable2[a] = true
		}
	}
	resetRefs := func() {
		for k, name := range refNames {
			rs.Set(name, sums[p.Refs[k]])
		}
		rs.Delete("heads/added-later")
	}
	changeRefs := func() {
		if p.DelRef > 0 {
			rs.Delete(refNames[p.DelRef-1])
		}
		if p.AddRef > 0 {
			rs.Set("heads/added-later", sums[p.AddRef-1])
		}
	}
	unknown := func(k int) []byte { return meowSum([]byte(fmt.Sprintf("unknown-%d", k))) }
	wants := make([][]byte, len(p.Wants))
	wantSet := map[int]bool{}
	wantOK := true
	for i, x := range p.Wants {
		wants[i] = sums[x]
		wantSet[x] = true
		if !reachable[x] || noTable[x] {
			wantOK = false
		}
	}
	lateWants := make([][]byte, len(p.LateWants))
	lateOK := true
	for i, x := range p.LateWants {
		lateWants[i] = sums[x]
		wantSet[x] = true // the client knows from the start what it is going to ask for
		if !reachable2[x] || noTable[x] {
			lateOK = false
		}
	}
	ancW := map[int]bool{}
	for x := range wantSet {
		for a := range anc[x] {
			ancW[a] = true
		}
	}
	// every have and every want may cost one walk over the history (each commit read a
	// bounded number of times per walk); anything quadratic in n per have is a blow-up
	nh := 0
	for _, hs := range p.Haves {
		nh += len(hs)
	}
	budget := int64(8*(n+1)) * int64(nh+len(p.Wants)+len(p.Refs)+4)

	for it := 0; it < rep; it++ {
		before := w.Steps
		resetRefs()
		f := apiutils.NewClosedSetsFinder(st, rs, p.Depth)
		faultRetried := false
		lateRefused := false
		st.Faults = nil
		if p.Fault != nil {
			ff := *p.Fault
			ff.seen, ff.Fired = 0, 0
			p.Fault = &ff
			st.Faults = []*Fault{p.Fault}
		}
		rounds := 0
		var acked = map[int]bool{}
		finished := false
		var procErr error
		nb := len(p.Haves)
		for round := 0; round <= nb && (!finished || (len(lateWants) > 0 && round == 1)); round++ {
			reachNow := reachable
			if round >= 1 {
				reachNow = reachable2
			}
			if round == 1 {
				changeRefs()
			}
			var haves [][]byte
			haveIdx := map[int]bool{}
			if round < nb {
				for _, h := range p.Haves[round] {
					if h < 0 {
						haves = append(haves, unknown(-1-h))
					} else {
						// a client never has what it wants (nor a descendant of it)
						skip := false
						for x := range wantSet {
							if anc[h][x] {
								skip = true
							}
						}
						if skip {
							continue
						}
						haves = append(haves, sums[h])
						haveIdx[h] = true
					}
				}
			}
			done := round >= nb-1
			var wv [][]byte
			if round == 0 {
				wv = wants
			}
			if round == 1 && len(lateWants) > 0 {
				wv = lateWants
			}
			acks, err := f.Process(wv, haves, done)
			if err != nil && p.Fault != nil && p.Fault.Fired > 0 && !faultRetried {
				// the store read failed: the server-side caller repeats the same request on the same session
				faultRetried = true
				res.fault("store_read_error", 1)
				acks, err = f.Process(wv, haves, done)
				res.probe("process_repeated_after_read_error", 1)
			}
			rounds++
			if w.Steps-before > budget {
				res.Violate("step-budget", "negotiation used %d store reads after %d rounds (budget %d for %d commits)", w.Steps-before, rounds, budget, n)
				return
			}
			if round == 1 && len(lateWants) > 0 {
				var uw *apiutils.UnrecognizedWantsError
				switch {
				case err != nil && errors.As(err, &uw):
					if lateOK {
						res.Violate("want-refused", "wants %v arrive with the second request, after ref %d was deleted and a ref was put on c%d; they are reachable from the refs as they are then, but were refused: %v", p.LateWants, p.DelRef-1, p.AddRef-1, err)
						return
					}
					res.probe("late_want_refused_after_ref_change", 1)
					lateRefused = true
				case err == nil && !lateOK:
					res.Violate("unreachable-want-accepted", "wants %v arrive with the second request, after ref %d was deleted (refs %v) and a ref was put on c%d: they include a commit no ref reaches any more (or one without its table), yet they were accepted", p.LateWants, p.DelRef-1, p.Refs, p.AddRef-1)
					return
				case err == nil:
					res.probe("late_want_accepted_after_ref_change", 1)
				}
				if lateRefused {
					break
				}
			}
			if err != nil {
				procErr = err
				break
			}
			for _, a := range acks {
				ai, ok := idx[string(a)]
				if !ok || !haveIdx[ai] {
					res.Violate("ack-not-a-have", "round %d acked %x which the client did not offer in this round", round, a)
					return
				}
				if !reachNow[ai] {
					res.Violate("ack-unreachable", "round %d acked c%d which is not reachable from any server ref", round, ai)
					return
				}
				acked[ai] = true
			}
			if len(f.Wants) == 0 {
				finished = true
			}
		}
		if lateRefused {
			continue
		}
		if procErr != nil {
			var uw *apiutils.UnrecognizedWantsError
			if errors.As(procErr, &uw) {
				if wantOK {
					res.Violate("want-refused", "wants %v are reachable from refs %v and complete, but were refused: %v", p.Wants, p.Refs, procErr)
					return
				}
				res.probe("unrecognized_wants", 1)
				// the refusal must stick to the request, not to the order of calls: asking the
				// same finder again must be refused again, and nothing of the refused want may be sent
				if _, err2 := f.Process(wants, nil, true); err2 == nil {
					res.Violate("refused-want-accepted-on-repeat", "wants %v were refused (%v) but the same request repeated on the same finder was accepted", p.Wants, procErr)
					return
				}
				if cs, err := f.CommitsToSend(); err == nil {
					for _, c := range cs {
						ci, ok := idx[string(c.Sum)]
						if ok && (!reachable[ci] || !ancW[ci]) {
							res.Violate("refused-want-sent", "after the refusal of wants %v the finder lists c%d for sending (unreachable from any ref, or not an ancestor of a want)", p.Wants, ci)
							return
						}
					}
				}
				continue
			}
			res.Violate("process-error", "Process: %v", procErr)
			return
		}
		if !wantOK {
			res.Violate("unreachable-want-accepted", "wants %v (refs %v, shallow %v) include a commit not reachable from any ref or without its table, yet negotiation succeeded", p.Wants, p.Refs, p.NoTable)
			return
		}
		var tablesEarly map[string]struct{}
		if p.TablesFirst {
			te, terr := f.TablesToSend()
			if terr != nil && p.Fault != nil && p.Fault.Fired > 0 && !faultRetried {
				faultRetried = true
				res.fault("store_read_error", 1)
				te, terr = f.TablesToSend()
			}
			if terr != nil {
				res.Violate("process-error", "TablesToSend: %v", terr)
				return
			}
			tablesEarly = te
			res.probe("tables_asked_before_commits", 1)
		}
		commits, err := f.CommitsToSend()
		if err != nil && p.Fault != nil && p.Fault.Fired > 0 && !faultRetried {
			faultRetried = true
			res.fault("store_read_error", 1)
			commits, err = f.CommitsToSend()
			res.probe("commits_to_send_repeated_after_read_error", 1)
		}
		if err != nil {
			res.Violate("process-error", "CommitsToSend: %v", err)
			return
		}
		tables, err := f.TablesToSend()
		if err != nil {
			res.Violate("process-error", "TablesToSend: %v", err)
			return
		}
		if tablesEarly != nil {
			// what the server was told before it listed the commits is what it negotiates and sends
			tables = tablesEarly
		}
		if w.Steps-before > budget {
			res.Violate("step-budget", "negotiation+listing used %d store reads (budget %d for %d commits); %d commits listed", w.Steps-before, budget, n, len(commits))
			return
		}
		if len(commits) > 4*n+8 {
			res.Violate("step-budget", "%d commits listed for a history of %d", len(commits), n)
			return
		}
		// A = ancestors-or-self of the common commits
		A := map[int]bool{}
		for _, c := range f.CommonCommmits() {
			ci, ok := idx[string(c)]
			if !ok {
				res.Violate("common-unknown", "common commit %x is not a server commit", c)
				return
			}
			for a := range anc[ci] {
				A[a] = true
			}
		}
		pos := map[int]int{}
		for i, c := range commits {
			ci, ok := idx[string(c.Sum)]
			if !ok {
				res.Violate("listed-unknown", "listed commit %x unknown", c.Sum)
				return
			}
			if !ancW[ci] {
				res.Violate("unreachable-sent", "c%d is listed but is not an ancestor of any want %v", ci, p.Wants)
				return
			}
			if _, dup := pos[ci]; !dup {
				pos[ci] = i
			}
			for _, par := range g.Parents[ci] {
				if A[par] {
					continue
				}
				if pp, ok := pos[par]; !ok || pp > i {
					res.Violate("parent-after-child", "c%d is listed at %d but its parent c%d is neither common nor listed earlier (wants %v commons-closure %v)", ci, i, par, p.Wants, keysOf(A))
					return
				}
			}
		}
		// what the client learns are the acks Process returned: closure must hold against those alone
		ackedClosure := map[int]bool{}
		for x := range acked {
			for a := range anc[x] {
				ackedClosure[a] = true
			}
		}
		for a := range ancW {
			if !ackedClosure[a] {
				if _, ok := pos[a]; !ok {
					res.Violate("closure-incomplete-vs-acks", "c%d is an ancestor of a want, is not listed for sending, and is no ancestor of any commit the server acknowledged to the client (wants %v, acks returned %v, commons kept by the finder %v; repeated after a read error: %v)", a, p.Wants, keysOf(acked), keysOf(commonsTip(f, idx)), faultRetried)
					return
				}
			}
		}
		for a := range ancW {
			if !A[a] {
				if _, ok := pos[a]; !ok {
					res.Violate("closure-incomplete", "c%d is an ancestor of a want but is neither listed nor an ancestor of an acknowledged common commit (wants %v, acked %v)", a, p.Wants, keysOf(acked))
					return
				}
			}
		}
		// table selection: commits within depth of a want along non-common paths
		dist := map[int]int{}
		var frontier []int
		for x := range wantSet {
			if _, isCommon := commonsTip(f, idx)[x]; !isCommon {
				dist[x] = 0
				frontier = append(frontier, x)
			}
		}
		tips := commonsTip(f, idx)
		for len(frontier) > 0 {
			var next []int
			for _, c := range frontier {
				for _, par := range g.Parents[c] {
					if tips[par] {
						continue
					}
					if _, ok := dist[par]; !ok {
						dist[par] = dist[c] + 1
						next = append(next, par)
					}
				}
			}
			frontier = next
		}
		wantTables := map[string]int{}
		for c, d := range dist {
			if _, listed := pos[c]; listed && (p.Depth == 0 || d < p.Depth) {
				wantTables[tableOf[c]] = c
			}
		}
		for tb, c := range wantTables {
			if _, ok := tables[tb]; !ok {
				res.Violate("table-missing", "table of c%d (distance %d from a want, depth %d) is not selected for sending (wants %v)", c, dist[c], p.Depth, p.Wants)
				return
			}
		}
		// upper bound: distance ignoring commons (a commit that became common in a
		// later round may already have had its table selected, legitimately)
		dist0 := map[int]int{}
		frontier = frontier[:0]
		for x := range wantSet {
			dist0[x] = 0
			frontier = append(frontier, x)
		}
		for len(frontier) > 0 {
			var next []int
			for _, c := range frontier {
				for _, par := range g.Parents[c] {
					if _, ok := dist0[par]; !ok {
						dist0[par] = dist0[c] + 1
						next = append(next, par)
					}
				}
			}
			frontier = next
		}
		allowed := map[string]bool{}
		for c, d := range dist0 {
			if p.Depth == 0 || d < p.Depth {
				allowed[tableOf[c]] = true
			}
		}
		for tb := range tables {
			if !allowed[tb] {
				res.Violate("table-extra", "a table outside the requested depth %d of every want is selected (wants %v)", p.Depth, p.Wants)
				return
			}
		}
		if it == 0 {
			merges := 0
			for ci := range pos {
				if len(g.Parents[ci]) >= 2 {
					merges++
				}
			}
			if rounds >= 2 {
				res.probe("multi_round", 1)
			}
			if len(acked) > 0 {
				res.probe("acks", 1)
			}
			res.Nontrivial = rounds >= 2 || (len(acked) >= 1 && merges >= 1)
		}
	}
	res.stat("sim_steps", float64(w.Steps))
}

func commonsTip(f *apiutils.ClosedSetsFinder, idx map[string]int) map[int]bool {
	m := map[int]bool{}
	for _, c := range f.CommonCommmits() {
		if i, ok := idx[string(c)]; ok {
			m[i] = true
		}
	}
	return m
}
