package sim

import "testing"

type EditSpec struct{}

func execC16Diff(t *testing.T, p *C16Plan, res *Result)  { res.Invalid("not built") }
func execC16Merge(t *testing.T, p *C16Plan, res *Result) { res.Invalid("not built") }
