package sim

// C06 monitor: evaluated on every simstore.Set in every profile.

import (
	"bytes"
	"fmt"
	"strings"

	"github.com/klauspost/compress/s2"
	"github.com/wrgl/wrgl/pkg/objects"
)

// CheckStoredObject verifies key = hash(canonical bytes), decode succeeds,
// re-encode reproduces the stored bytes. Returns "" when fine.
func CheckStoredObject(key string, val []byte) string { return checkStoredObject(key, val, true) }

// CheckStoredObjectLenient: key = hash and decodable, but the encoding need not
// be canonical (objects that came from a hostile peer, C17).
func CheckStoredObjectLenient(key string, val []byte) string {
	return checkStoredObject(key, val, false)
}

func checkStoredObject(key string, val []byte, strict bool) string {
	i := strings.IndexByte(key, '/')
	if i < 0 {
		return ""
	}
	pre, suf := key[:i+1], []byte(key[i+1:])
	switch pre {
	case "com/":
		if !bytes.Equal(meowSum(val), suf) {
			return fmt.Sprintf("commit stored under %x but hashes to %x", suf, meowSum(val))
		}
		_, c, err := objects.ReadCommitFrom(bytes.NewReader(val))
		if err != nil {
			return fmt.Sprintf("stored commit %x does not decode: %v", suf, err)
		}
		var b bytes.Buffer
		if _, err := c.WriteTo(&b); strict && (err != nil || !bytes.Equal(b.Bytes(), val)) {
			return fmt.Sprintf("commit %x: re-encoding what was read differs from the stored bytes (err=%v)", suf, err)
		}
	case "tbl/":
		if !bytes.Equal(meowSum(val), suf) {
			return fmt.Sprintf("table stored under %x but hashes to %x", suf, meowSum(val))
		}
		_, tb, err := objects.ReadTableFrom(bytes.NewReader(val))
		if err != nil {
			return fmt.Sprintf("stored table %x does not decode: %v", suf, err)
		}
		var b bytes.Buffer
		if _, err := tb.WriteTo(&b); strict && (err != nil || !bytes.Equal(b.Bytes(), val)) {
			return fmt.Sprintf("table %x: re-encoding what was read differs from the stored bytes (err=%v)", suf, err)
		}
	case "blk/":
		raw, err := s2.Decode(nil, val)
		if err != nil {
			return fmt.Sprintf("stored block %x is not s2: %v", suf, err)
		}
		if !bytes.Equal(meowSum(raw), suf) {
			return fmt.Sprintf("block stored under %x but hashes to %x", suf, meowSum(raw))
		}
		rows, err := decBlock(raw)
		if err != nil {
			return fmt.Sprintf("stored block %x does not decode: %v", suf, err)
		}
		_, rows2, err := objects.ReadBlockFrom(bytes.NewReader(raw))
		if err != nil {
			return fmt.Sprintf("stored block %x: ReadBlockFrom: %v", suf, err)
		}
		if len(rows) != len(rows2) {
			return fmt.Sprintf("stored block %x: ReadBlockFrom yields %d rows, bytes hold %d", suf, len(rows2), len(rows))
		}
		var b bytes.Buffer
		if _, err := objects.WriteBlockTo(objects.NewStrListEncoder(true), &b, rows2); err != nil || !bytes.Equal(b.Bytes(), raw) {
			return fmt.Sprintf("block %x: re-encoding what was read differs from the stored bytes (err=%v)", suf, err)
		}
	case "blkidx/":
		raw, err := s2.Decode(nil, val)
		if err != nil {
			return fmt.Sprintf("stored block index %x is not s2: %v", suf, err)
		}
		if !bytes.Equal(meowSum(raw), suf) {
			return fmt.Sprintf("block index stored under %x but hashes to %x", suf, meowSum(raw))
		}
		_, idx, err := objects.ReadBlockIndex(bytes.NewReader(raw))
		if err != nil {
			return fmt.Sprintf("stored block index %x does not decode: %v", suf, err)
		}
		var b bytes.Buffer
		if _, err := idx.WriteTo(&b); err != nil || !bytes.Equal(b.Bytes(), raw) {
			return fmt.Sprintf("block index %x: re-encoding differs (err=%v)", suf, err)
		}
	case "tblidx/":
		if _, err := decBlock(val); err != nil {
			return fmt.Sprintf("stored table index %x does not decode: %v", suf, err)
		}
	case "tblsum/":
		ts := &objects.TableProfile{}
		if _, err := ts.ReadFrom(bytes.NewReader(val)); err != nil {
			return fmt.Sprintf("stored table profile %x does not decode: %v", suf, err)
		}
		var b bytes.Buffer
		if _, err := ts.WriteTo(&b); err != nil || !bytes.Equal(b.Bytes(), val) {
			return fmt.Sprintf("table profile %x: re-encoding differs (err=%v)", suf, err)
		}
	}
	return ""
}

// MonitorC06 is installed as Store.Monitor.
func MonitorC06(key string, old []byte, had bool, val []byte) string {
	if e := CheckStoredObject(key, val); e != "" {
		return e
	}
	if had && (strings.HasPrefix(key, "com/") || strings.HasPrefix(key, "tbl/")) && !bytes.Equal(old, val) {
		return fmt.Sprintf("%s rewritten with different bytes", FmtKey(key))
	}
	return ""
}

// MonitorLenient: for objects arriving from a hostile / corrupted peer (C17):
// key = hash and decodable, canonical re-encoding not required.
func MonitorLenient(key string, old []byte, had bool, val []byte) string {
	return CheckStoredObjectLenient(key, val)
}
