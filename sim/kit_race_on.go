//go:build race

package sim

import "runtime"

const RaceEnabled = true

func runtime_raceErrors() int { return runtime.RaceErrors() }

func raceDisable() { runtime.RaceDisable() }
func raceEnable()  { runtime.RaceEnable() }
