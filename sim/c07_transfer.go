package sim

// C07: commits sent through packfiles (real ObjectSender -> packfile ->
// chunking reader -> real ObjectReceiver) are reproduced exactly.

import (
	"bytes"
	"encoding/json"
	"fmt"
	"io"
	"sort"
	"strings"
	"testing"

	"github.com/go-logr/logr"
	"github.com/klauspost/compress/s2"
	apiutils "github.com/wrgl/wrgl/pkg/api/utils"
	"github.com/wrgl/wrgl/pkg/encoding/packfile"
	"github.com/wrgl/wrgl/pkg/objects"
)

type C07Plan struct {
	Repo      RepoSpec `json:"repo"`
	Have      []int    `json:"have"`        // commits (closed under ancestors by the executor) already at the destination
	HaveNoTbl []int    `json:"have_no_tbl"` // of those, commits whose table is absent at the destination
	LoneObjs  int      `json:"lone_objs"`   // number of random src blocks/tables copied to dst beforehand
	LoneSeed  uint64   `json:"lone_seed"`
	Tips      []int    `json:"tips"`
	Depth     int      `json:"depth"` // 0 = all tables; d>0: only tables of commits within d of a tip
	MaxPack   uint64   `json:"max_pack"`
	Cuts      []int    `json:"cuts"`
	EOFLast   bool     `json:"eof_with_last"`
	Adversary string   `json:"adversary,omitempty"` // "", "child-first", "table-before-blocks", "damaged-table" (after the honest transfer the source offers a copy of a table with two block indices exchanged)
	SrcFault  *Fault   `json:"src_fault,omitempty"` // a read of the sender's store fails while it builds the packfiles
	// DstFault: a first attempt of the whole transfer runs with this write fault on the destination store and is
	// allowed to fail; the transfer is then repeated without fault, sending only what the destination still lacks
	// (tables whose object is present count as present, as in the real table negotiation)
	DstFault *Fault `json:"dst_fault,omitempty"`
}

func init() {
	Register(&Profile{
		ID: "C07", Prop: "C07",
		Rule: "source repository (DAG <=14 commits, tables sharing blocks, 1-3 blocks) x destination pre-populated with an ancestor-closed subset of commits (with/without tables) plus lone blocks/tables x tips x table depth x max packfile size 1..4096/unlimited x read partition of each packfile; adversarial variants reorder objects; non-trivial = >=2 packfiles or >=1 object already present at the destination, with >=2 commits sent; distinct by plan hash",
		Gen: func(seed uint64, tier string) any {
			r := NewRand(seed)
			p := C07Plan{Repo: GenRepoSpec(r.Sub("repo"), 14, 600)}
			if rz := r.Sub("zones"); rz.Chance(0.4) {
				// authors in several zones, among them negative ones that are not whole hours
				for k := rz.Range(1, 4); k > 0; k-- {
					p.Repo.Graph.Zones = append(p.Repo.Graph.Zones, Pick(rz, []int{0, 60, -60, 330, 345, -210, -570, -150, 765, -720, 840, -1, -45, -30}))
				}
			}
			if r.Chance(0.006) {
				// rows of two 40000-byte cells: a full block decodes to 20 MB (the 64 KiB limit is per cell, not per row)
				p.Repo.Base = SynthSpec{N: Pick(r, []int{255, 256, 300}), NCols: 3, Seed: r.Uint64(), Wide: 40000}
				p.Repo.Variants = [][]Edit{{{Op: "setcell", Row: 0, Col: 1, Val: "edited"}}}
				for i := range p.Repo.TableOf {
					p.Repo.TableOf[i] %= 2
				}
				p.Repo.AltPK = nil
			}
			n := p.Repo.Graph.N()
			for k := r.Range(0, 2); k > 0; k-- {
				p.Have = append(p.Have, r.Intn(n))
			}
			if r.Chance(0.3) && len(p.Have) > 0 {
				p.HaveNoTbl = append(p.HaveNoTbl, Pick(r, p.Have))
			}
			p.LoneObjs = Pick(r, []int{0, 0, 1, 3})
			p.LoneSeed = r.Uint64()
			for k := r.Range(1, 2); k > 0; k-- {
				p.Tips = append(p.Tips, r.Intn(n))
			}
			if r.Chance(0.6) {
				p.Tips = append(p.Tips, n-1)
			}
			p.Depth = Pick(r, []int{0, 0, 0, 1, 2})
			p.MaxPack = Pick(r, []uint64{0, 0, 1, 17, 300, 4096, uint64(r.Intn(20000))})
			switch r.Intn(4) {
			case 0:
			case 1:
				p.Cuts = []int{1}
			default:
				for k := r.Range(1, 6); k > 0; k-- {
					p.Cuts = append(p.Cuts, Pick(r, []int{1, 2, 3, 7, 8, 9, 64, 1000}))
				}
			}
			p.EOFLast = r.Chance(0.3)
			if r.Chance(0.12) {
				p.Adversary = Pick(r, []string{"child-first", "table-before-blocks"})
				if r.Sub("damaged").Chance(0.4) {
					p.Adversary = "damaged-table"
				}
			} else if r.Chance(0.15) {
				p.DstFault = &Fault{Op: Pick(r, []string{"set", "set", "write"}), Prefix: Pick(r, []string{"tblsum/", "tblsum/", "tblidx/", "tbl/", "blkidx/", "blk/", "com/", ""}), Nth: r.Range(1, 10)}
			} else if r.Chance(0.15) {
				p.SrcFault = &Fault{Op: Pick(r, []string{"get", "get", "exist", "read", "any"}), Prefix: Pick(r, []string{"tbl/", "tbl/", "blk/", "com/", ""}), Nth: r.Range(1, 12), Sticky: r.Chance(0.2)}
			}
			return p
		},
		Exec: execC07,
	})
}

func execC07(t *testing.T, raw json.RawMessage, res *Result) {
	var p C07Plan
	if err := json.Unmarshal(raw, &p); err != nil {
		res.Invalid("plan: %v", err)
		return
	}
	if err := p.Repo.Validate(); err != nil || p.Repo.Graph.N() == 0 || p.Repo.Graph.N() > 60 {
		res.Invalid("plan: %v", err)
		return
	}
	g := &p.Repo.Graph
	n := g.N()
	for _, xs := range [][]int{p.Have, p.HaveNoTbl, p.Tips} {
		for _, x := range xs {
			if x < 0 || x >= n {
				res.Invalid("index")
				return
			}
		}
	}
	if len(p.Tips) == 0 || p.Depth < 0 || p.LoneObjs < 0 || p.LoneObjs > 50 || len(p.Cuts) > 200 {
		res.Invalid("plan")
		return
	}
	w := &World{}
	src := NewStore("src", w)
	dst := NewStore("dst", w)
	dst.Monitor = MonitorC06
	br, err := p.Repo.Build(t, src)
	if err != nil {
		res.Invalid("build: %v", err)
		return
	}
	anc := g.Reach()
	// destination: ancestor-closed set of commits
	have := map[int]bool{}
	for _, x := range p.Have {
		for a := range anc[x] {
			have[a] = true
		}
	}
	noTbl := map[int]bool{}
	for _, x := range p.HaveNoTbl {
		noTbl[x] = true
	}
	copyObj := func(key string) {
		if v, ok := src.Raw(key); ok {
			dst.RawSet(key, v)
		}
	}
	copyTable := func(sum []byte) {
		tb, _, err := ReadTableRaw(src, sum)
		if err != nil {
			return
		}
		for i, b := range tb.Blocks {
			copyObj("blk/" + string(b))
			copyObj("blkidx/" + string(tb.BlockIndices[i]))
		}
		copyObj("tbl/" + string(sum))
		copyObj("tblidx/" + string(sum))
		copyObj("tblsum/" + string(sum))
	}
	tableAt := func(i int) []byte {
		c, _ := objects.GetCommit(src, br.Commits[i])
		return c.Table
	}
	dstFullTables := map[string]bool{}
	for c := range have {
		copyObj("com/" + string(br.Commits[c]))
		if !noTbl[c] {
			copyTable(tableAt(c))
			dstFullTables[string(tableAt(c))] = true
		}
	}
	// lone objects
	lr := NewRand(p.LoneSeed)
	keys := append(src.Keys("blk/"), src.Keys("tbl/")...)
	for i := 0; i < p.LoneObjs && len(keys) > 0; i++ {
		k := Pick(lr, keys)
		if strings.HasPrefix(k, "tbl/") {
			copyTable([]byte(k[4:]))
			dstFullTables[k[4:]] = true
		} else {
			copyObj(k)
		}
	}
	preexisting := len(dst.Keys(""))
	// what to send: ancestors of tips not at dst, parents first (index order is topological)
	need := map[int]bool{}
	for _, x := range p.Tips {
		for a := range anc[x] {
			if !have[a] {
				need[a] = true
			}
		}
	}
	var toSend []*objects.Commit
	var sendIdx []int
	for i := 0; i < n; i++ {
		if need[i] {
			c, err := objects.GetCommit(src, br.Commits[i])
			if err != nil {
				res.Invalid("%v", err)
				return
			}
			toSend = append(toSend, c)
			sendIdx = append(sendIdx, i)
		}
	}
	if len(toSend) == 0 {
		res.Nontrivial = false
		return
	}
	// tables to send: within depth of a tip
	dist := map[int]int{}
	fr := []int{}
	for _, x := range p.Tips {
		if _, ok := dist[x]; !ok {
			dist[x] = 0
			fr = append(fr, x)
		}
	}
	for len(fr) > 0 {
		var nx []int
		for _, c := range fr {
			for _, par := range g.Parents[c] {
				if _, ok := dist[par]; !ok {
					dist[par] = dist[c] + 1
					nx = append(nx, par)
				}
			}
		}
		fr = nx
	}
	tablesToSend := map[string]struct{}{}
	for _, i := range sendIdx {
		if p.Depth == 0 || dist[i] < p.Depth {
			tablesToSend[string(tableAt(i))] = struct{}{}
		}
	}
	// common commits = destination commits whose table is complete there
	var commons [][]byte
	for c := range have {
		if !noTbl[c] {
			commons = append(commons, br.Commits[c])
		}
	}
	var expected [][]byte
	for _, x := range p.Tips {
		if need[x] {
			expected = append(expected, br.Commits[x])
		}
	}

	if p.Adversary != "" && p.Adversary != "damaged-table" {
		c07Adversary(&p, res, src, dst, br, toSend, tablesToSend)
		return
	}
	if p.Adversary == "damaged-table" {
		defer func() {
			if res.Verdict == "" || res.Verdict == "ok" {
				c07DamagedTable(res, src, dst, tablesToSend)
			}
		}()
	}
	var retryTables map[string]struct{}

	if p.DstFault != nil && p.SrcFault == nil {
		// first attempt under the destination write fault (quietly: whatever it leaves behind is the pre-state of the retry)
		f := *p.DstFault
		f.seen, f.Fired = 0, 0
		dst.Faults = []*Fault{&f}
		func() {
			s1, err := apiutils.NewObjectSender(src, toSend, tablesToSend, commons, p.MaxPack)
			if err != nil {
				return
			}
			r1 := apiutils.NewObjectReceiver(dst, expected, logr.Discard())
			for i := 0; i < 100000; i++ {
				var buf bytes.Buffer
				done, _, err := s1.WriteObjects(&buf, nil)
				if err != nil {
					return
				}
				pr, err := packfile.NewPackfileReader(NewPartReader(buf.Bytes(), p.Cuts, p.EOFLast))
				if err != nil {
					return
				}
				if _, err := r1.Receive(pr, nil); err != nil || done {
					return
				}
			}
		}()
		dst.Faults = nil
		dst.TakeMonErrs()
		if f.Fired > 0 {
			res.fault("destination_write_error", 1)
			res.probe("transfer_retried_after_destination_write_error", 1)
			// what is still to be sent: commits the destination lacks, tables whose object it lacks
			var toSend2 []*objects.Commit
			for _, c := range toSend {
				if _, ok := dst.Raw("com/" + string(c.Sum)); !ok {
					toSend2 = append(toSend2, c)
				} else if _, ok := dst.Raw("tbl/" + string(c.Table)); ok {
					commons = append(commons, c.Sum)
				}
			}
			tables2 := map[string]struct{}{}
			for ts := range tablesToSend {
				if _, ok := dst.Raw("tbl/" + ts); !ok {
					tables2[ts] = struct{}{}
				}
			}
			var expected2 [][]byte
			for _, e := range expected {
				if _, ok := dst.Raw("com/" + string(e)); !ok {
					expected2 = append(expected2, e)
				}
			}
			origTables := tablesToSend
			toSend, expected = toSend2, expected2
			retryTables = tables2
			defer func() { _ = origTables }()
		}
	}
	srcFaulted := func() bool {
		if p.SrcFault != nil && p.SrcFault.Fired > 0 {
			// the sender could not read its own store: giving up with an error is a right answer
			res.fault("sender_store_read_error", 1)
			res.probe("sender_gave_up_on_read_error", 1)
			res.Nontrivial = true
			return true
		}
		return false
	}
	if p.SrcFault != nil {
		p.SrcFault.seen, p.SrcFault.Fired = 0, 0
		src.Faults = []*Fault{p.SrcFault}
		defer func() { src.Faults = nil }()
	}
	sendTables := tablesToSend
	if retryTables != nil {
		sendTables = retryTables
	}
	sender, err := apiutils.NewObjectSender(src, toSend, sendTables, commons, p.MaxPack)
	if err != nil {
		if srcFaulted() {
			return
		}
		res.Violate("sender-error", "NewObjectSender: %v", err)
		return
	}
	recv := apiutils.NewObjectReceiver(dst, expected, logr.Discard())
	packs := 0
	var totalBytes int
	recvDone := false
	for {
		var buf bytes.Buffer
		done, _, err := sender.WriteObjects(&buf, nil)
		if err != nil {
			if srcFaulted() {
				return
			}
			res.Violate("sender-error", "WriteObjects: %v", err)
			return
		}
		packs++
		totalBytes += buf.Len()
		pr, err := packfile.NewPackfileReader(NewPartReader(buf.Bytes(), p.Cuts, p.EOFLast))
		if err != nil {
			res.Violate("receive-error", "NewPackfileReader on packfile %d: %v", packs, err)
			return
		}
		recvDone, err = recv.Receive(pr, nil)
		if err != nil {
			if p.SrcFault != nil && p.SrcFault.Fired > 0 {
				// a sender that lost an object to a read error may produce a stream the receiver refuses: loud, fine
				res.fault("sender_store_read_error", 1)
				res.probe("receiver_refused_after_sender_read_error", 1)
				res.Nontrivial = true
				return
			}
			res.Violate("receive-error", "Receive packfile %d: %v", packs, err)
			return
		}
		if done {
			break
		}
		if packs > 100000 {
			res.Violate("sender-stuck", "sender not done after %d packfiles", packs)
			return
		}
	}
	src.Faults = nil
	if p.SrcFault != nil && p.SrcFault.Fired > 0 {
		res.fault("sender_store_read_error", 1)
		res.probe("transfer_completed_despite_sender_read_error", 1)
	}
	if me := dst.TakeMonErrs(); len(me) > 0 {
		res.Violate("c06-monitor", "%s", me[0])
		return
	}
	if !recvDone {
		res.Violate("receiver-not-done", "all packfiles delivered but the receiver still expects commits")
		return
	}
	// oracle
	for _, i := range sendIdx {
		k := "com/" + string(br.Commits[i])
		sv, _ := src.Raw(k)
		dv, ok := dst.Raw(k)
		if !ok || !bytes.Equal(sv, dv) {
			res.Violate("commit-not-reproduced", "commit c%d missing or different at the destination", i)
			return
		}
		for _, par := range g.Parents[i] {
			if _, ok := dst.Raw("com/" + string(br.Commits[par])); !ok {
				res.Violate("parent-missing", "c%d stored at the destination without its parent c%d", i, par)
				return
			}
		}
	}
	for ts := range tablesToSend {
		sv, _ := src.Raw("tbl/" + ts)
		dv, ok := dst.Raw("tbl/" + ts)
		if !ok || !bytes.Equal(sv, dv) {
			res.Violate("table-not-reproduced", "table %x missing or different at the destination", ts)
			return
		}
		if c, d := CheckTable(dst, []byte(ts)); c != "" {
			res.Violate("c03-"+c, "received table %x: %s", ts, d)
			return
		}
		tb, _, _ := ReadTableRaw(src, []byte(ts))
		for _, b := range tb.Blocks {
			sb, _ := src.Raw("blk/" + string(b))
			db, _ := dst.Raw("blk/" + string(b))
			sr, _ := s2.Decode(nil, sb)
			dr, _ := s2.Decode(nil, db)
			if !bytes.Equal(sr, dr) {
				res.Violate("block-not-reproduced", "block %x differs at the destination", b)
				return
			}
		}
		if _, ok := dst.Raw("tblsum/" + ts); !ok {
			res.Violate("profile-missing", "profile of received table %x not rebuilt", ts)
			return
		}
		evs, err := runDiff(dst, src, []byte(ts), []byte(ts))
		if err != nil || len(evs) != 0 {
			res.Violate("diff-not-empty", "diff(destination table, source table) = %d events, err=%v", len(evs), err)
			return
		}
	}
	res.stat("sim_steps", float64(w.Steps))
	res.stat("packfiles", float64(packs))
	res.stat("packfile_bytes", float64(totalBytes))
	if packs >= 2 {
		res.probe("multi_packfile", 1)
	}
	if preexisting > 0 {
		res.probe("prepopulated_destination", 1)
	}
	res.Nontrivial = (packs >= 2 || preexisting > 0) && len(toSend) >= 2
}

// c07Adversary feeds a packfile with objects in an order the receiver must refuse.
func c07Adversary(p *C07Plan, res *Result, src, dst *Store, br *BuiltRepo, toSend []*objects.Commit, tables map[string]struct{}) {
	var buf bytes.Buffer
	pw, _ := packfile.NewPackfileWriter(&buf)
	writeCommit := func(c *objects.Commit) {
		var b bytes.Buffer
		c.WriteTo(&b)
		pw.WriteObject(packfile.ObjectCommit, b.Bytes())
	}
	switch p.Adversary {
	case "child-first":
		// find a commit to send whose parent is also to be sent
		sending := map[string]*objects.Commit{}
		for _, c := range toSend {
			sending[string(c.Sum)] = c
		}
		var child *objects.Commit
		for _, c := range toSend {
			for _, par := range c.Parents {
				if _, ok := sending[string(par)]; ok {
					child = c
				}
			}
		}
		if child == nil {
			return
		}
		writeCommit(child)
		// the same stream against three want lists: the child alone; the child and
		// its missing parents (the session is then cut after the child, or the peer
		// simply sent them in the wrong order); every commit of the transfer
		wantsChildParents := [][]byte{child.Sum}
		for _, par := range child.Parents {
			if _, ok := sending[string(par)]; ok {
				wantsChildParents = append(wantsChildParents, par)
			}
		}
		var wantsAll [][]byte
		for _, c := range toSend {
			wantsAll = append(wantsAll, c.Sum)
		}
		for vi, wants := range [][][]byte{{child.Sum}, wantsChildParents, wantsAll} {
			recv := apiutils.NewObjectReceiver(dst, wants, logr.Discard())
			pr, err := packfile.NewPackfileReader(io.NopCloser(bytes.NewReader(buf.Bytes())))
			if err != nil {
				res.Invalid("%v", err)
				return
			}
			_, err = recv.Receive(pr, nil)
			_, stored := dst.Raw("com/" + string(child.Sum))
			if err == nil || stored {
				res.Violate("orphan-commit-accepted", "a commit whose parent is missing was accepted (want list variant %d of child / child+parents / all; err=%v, stored=%v)", vi, err, stored)
				return
			}
		}
		res.probe("adversary_child_first", 1)
		res.Nontrivial = true
	case "table-before-blocks":
		for ts := range tables {
			tb, _, err := ReadTableRaw(src, []byte(ts))
			if err != nil || len(tb.Blocks) == 0 {
				continue
			}
			missing := false
			for _, b := range tb.Blocks {
				if _, ok := dst.Raw("blk/" + string(b)); !ok {
					missing = true
				}
			}
			if !missing {
				continue
			}
			tv, _ := src.Raw("tbl/" + ts)
			pw.WriteObject(packfile.ObjectTable, tv)
			recv := apiutils.NewObjectReceiver(dst, nil, logr.Discard())
			pr, _ := packfile.NewPackfileReader(io.NopCloser(bytes.NewReader(buf.Bytes())))
			_, err = recv.Receive(pr, nil)
			if err == nil {
				res.Violate("table-without-blocks-accepted", "a table whose blocks are missing was accepted")
				return
			}
			// nothing from a rejected object may be left referenced / reported as present
			if _, ok := dst.Raw("tbl/" + ts); ok {
				res.Violate("rejected-table-stored", "table %x was refused (%v) but its tbl/ object is stored: the repository now reports a table it cannot use", ts, fmt.Sprint(err))
				return
			}
			res.probe("adversary_table_before_blocks", 1)
			res.Nontrivial = true
			return
		}
	}
}

// c07DamagedTable: the honest transfer is over, so the destination holds every block and block index of the
// tables sent. The source now offers a damaged copy of one of them - the same blocks, the block indices of two
// blocks exchanged - under a new commit. The receiver rebuilds the indices and must refuse; whatever it answers,
// a table it stores must be sound.
func c07DamagedTable(res *Result, src, dst *Store, tables map[string]struct{}) {
	var names []string
	for ts := range tables {
		names = append(names, ts)
	}
	sort.Strings(names)
	for _, ts := range names {
		tbl, err := objects.GetTable(src, []byte(ts))
		if err != nil || len(tbl.Blocks) < 2 || bytes.Equal(tbl.BlockIndices[0], tbl.BlockIndices[1]) {
			continue
		}
		if _, ok := dst.Raw("tbl/" + ts); !ok {
			continue
		}
		bad := *tbl
		bad.BlockIndices = append([][]byte(nil), tbl.BlockIndices...)
		bad.BlockIndices[0], bad.BlockIndices[1] = bad.BlockIndices[1], bad.BlockIndices[0]
		var tb bytes.Buffer
		bad.WriteTo(&tb)
		badSum := meowSum(tb.Bytes())
		com := &objects.Commit{Table: badSum, AuthorName: "a", AuthorEmail: "e", Message: "damaged", Time: bubbleEpoch}
		var cb bytes.Buffer
		com.WriteTo(&cb)
		var pf bytes.Buffer
		pw, _ := packfile.NewPackfileWriter(&pf)
		pw.WriteObject(packfile.ObjectTable, tb.Bytes())
		pw.WriteObject(packfile.ObjectCommit, cb.Bytes())
		pr, err := packfile.NewPackfileReader(io.NopCloser(bytes.NewReader(pf.Bytes())))
		if err != nil {
			res.Invalid("%v", err)
			return
		}
		_, rerr := apiutils.NewObjectReceiver(dst, [][]byte{meowSum(cb.Bytes())}, logr.Discard()).Receive(pr, nil)
		dst.TakeMonErrs()
		if _, ok := dst.Raw("tbl/" + string(badSum)); ok {
			if c, d := CheckTable(dst, badSum); c != "" {
				res.Violate("damaged-table-stored:"+c, "a table whose block indices are exchanged between two blocks was received (err %v) and stored: %s", rerr, d)
				return
			}
		}
		res.probe("adversary_damaged_table", 1)
		return
	}
}
