package sim

// C18: decoding under seeded read partitions must equal whole-buffer decoding.

import (
	"bytes"
	"encoding/json"
	"fmt"
	"io"
	"testing"
	"time"

	"github.com/wrgl/wrgl/pkg/encoding"
	"github.com/wrgl/wrgl/pkg/encoding/packfile"
	"github.com/wrgl/wrgl/pkg/encoding/pktline"
	"github.com/wrgl/wrgl/pkg/misc"
	"github.com/wrgl/wrgl/pkg/objects"
)

// PartReader delivers a byte stream in the chunks a plan prescribes.
type PartReader struct {
	data        []byte
	cuts        []int // chunk sizes, cycled; <=0 treated as 1
	i           int
	left        int // left in the current chunk
	EOFWithLast bool
	Reads       int
	ZeroReads   int
	zeroRun     int
}

func NewPartReader(data []byte, cuts []int, eofWithLast bool) *PartReader {
	return &PartReader{data: data, cuts: cuts, EOFWithLast: eofWithLast}
}

func (p *PartReader) Read(b []byte) (int, error) {
	p.Reads++
	if len(p.data) == 0 {
		return 0, io.EOF
	}
	if len(b) == 0 {
		return 0, nil
	}
	if p.left == 0 {
		c := 1 << 30
		if len(p.cuts) > 0 {
			c = p.cuts[p.i%len(p.cuts)]
			p.i++
			if c == 0 && p.zeroRun < 3 {
				// a read that delivers nothing and no error: io.Reader allows it ("nothing
				// happened"; io.Pipe does it for zero-length writes); at most 3 in a row
				p.zeroRun++
				p.ZeroReads++
				return 0, nil
			}
			if c <= 0 {
				c = 1
			}
		}
		p.left = c
	}
	p.zeroRun = 0
	n := len(b)
	if n > p.left {
		n = p.left
	}
	if n > len(p.data) {
		n = len(p.data)
	}
	copy(b, p.data[:n])
	p.data = p.data[n:]
	p.left -= n
	if len(p.data) == 0 && p.EOFWithLast {
		return n, io.EOF
	}
	return n, nil
}

func (p *PartReader) Close() error { return nil }

type C18Plan struct {
	Kind     string `json:"kind"` // packfile|pktline|commit|table|block|blockindex|profile|strlist|uintlist
	DataSeed uint64 `json:"data_seed"`
	Sizes    []int  `json:"sizes"` // object sizes / string lengths / counts, by kind
	Cuts     []int  `json:"cuts"`
	EOFLast  bool   `json:"eof_with_last"`
}

var c18Kinds = []string{"packfile", "packfile", "pktline", "commit", "table", "block", "blockindex", "profile", "strlist", "uintlist"}

func init() {
	Register(&Profile{
		ID: "C18", Prop: "C18",
		Rule: "valid encoded stream (packfile with objects at varint-boundary sizes, pkt-lines, commit, table, block, block index, profile, string list, uint list) x read partition (whole, 1-byte, halves, random cuts, cuts inside headers, data+EOF in one call); each case decodes once from a whole buffer and once through the partitioning reader; non-trivial = the partition delivered the stream in >=2 reads; distinct by plan hash",
		Gen: func(seed uint64, tier string) any {
			r := NewRand(seed)
			p := C18Plan{Kind: Pick(r, c18Kinds), DataSeed: r.Uint64(), EOFLast: r.Chance(0.4)}
			n := r.Range(1, 6)
			for i := 0; i < n; i++ {
				p.Sizes = append(p.Sizes, Pick(r, []int{0, 1, 2, 3, 15, 16, 17, 100, 255, 256, 2047, 2048, 2049, 5000, r.Intn(3000)}))
			}
			if tier == "thorough" && r.Chance(0.1) {
				p.Sizes = append(p.Sizes, Pick(r, []int{262143, 262144, 262145, 70000}))
			}
			if p.Kind == "packfile" && r.Chance(0.06) {
				// an object beyond 1 MiB (and beyond 4 MiB in the thorough tier) followed by further objects
				big := Pick(r, []int{1<<20 - 1, 1 << 20, 1<<20 + 1, 1200000, 2500000})
				if tier == "thorough" && r.Chance(0.3) {
					big = 4<<20 + r.Intn(3)
				}
				at := r.Intn(len(p.Sizes))
				p.Sizes = append(p.Sizes[:at:at], append([]int{big}, p.Sizes[at:]...)...)
				p.Sizes = append(p.Sizes, Pick(r, []int{1, 17, 300}))
				if rb := r.Sub("biglast"); rb.Chance(0.4) {
					// ... or as the last object of the stream, its final bytes often arriving together with io.EOF
					// (a sub-stream: the plans of earlier versions stay what they were)
					p.Sizes = append(append(p.Sizes[:at:at], p.Sizes[at+1:len(p.Sizes)-1]...), big)
					p.EOFLast = rb.Chance(0.7)
				}
			}
			switch r.Intn(7) {
			case 0: // whole
			case 1:
				p.Cuts = []int{1}
			case 2:
				p.Cuts = []int{2}
			case 3:
				p.Cuts = []int{r.Range(1, 9)}
			case 4: // header-straddling: first chunk cuts inside the 8-byte packfile header / 4-byte counts
				p.Cuts = []int{r.Range(1, 7), r.Range(1, 3), 1 << 20}
			default:
				k := r.Range(2, 12)
				for i := 0; i < k; i++ {
					p.Cuts = append(p.Cuts, Pick(r, []int{1, 2, 3, 4, 5, 7, 8, 15, 16, 17, 31, 33, 100, 1000, 4096, 32768}))
				}
			}
			if len(p.Cuts) > 0 && r.Chance(0.25) {
				// sprinkle reads that return (0, nil)
				for k := r.Range(1, 3); k > 0; k-- {
					at := r.Intn(len(p.Cuts) + 1)
					p.Cuts = append(p.Cuts[:at:at], append([]int{0}, p.Cuts[at:]...)...)
				}
			}
			return p
		},
		Exec: execC18,
	})
}

func c18RandBytes(r *Rand, n int) []byte {
	b := make([]byte, n)
	for i := range b {
		b[i] = byte(r.Uint32())
	}
	return b
}

func c18RandStr(r *Rand, n int) string {
	b := make([]byte, n)
	for i := range b {
		b[i] = "abcxyz \n\"01"[r.Intn(11)]
	}
	return string(b)
}

// c18Build returns the encoded stream and a decoder that renders everything
// decoded (values, byte counts, end condition) as one string.
func c18Build(p *C18Plan) (stream []byte, decode func(r io.Reader) string, err error) {
	r := NewRand(p.DataSeed)
	var buf bytes.Buffer
	sz := func(i int) int {
		if len(p.Sizes) == 0 {
			return 0
		}
		s := p.Sizes[i%len(p.Sizes)]
		if s < 0 {
			s = 0
		}
		return s
	}
	switch p.Kind {
	case "packfile":
		w, err := packfile.NewPackfileWriter(&buf)
		if err != nil {
			return nil, nil, err
		}
		for i := range p.Sizes {
			if sz(i) > 5000000 {
				return nil, nil, fmt.Errorf("size too large")
			}
			if _, err := w.WriteObject(1+r.Intn(3), c18RandBytes(r, sz(i))); err != nil {
				return nil, nil, err
			}
		}
		decode = func(rd io.Reader) string {
			var out bytes.Buffer
			pr, err := packfile.NewPackfileReader(io.NopCloser(rd))
			if err != nil {
				return "open-err:" + err.Error()
			}
			fmt.Fprintf(&out, "v%d;", pr.Version)
			for i := 0; i < 1000; i++ {
				t, b, err := pr.ReadObject()
				if err != nil {
					fmt.Fprintf(&out, "end:%v", err)
					break
				}
				fmt.Fprintf(&out, "%d:%x;", t, meowSum(b))
			}
			return out.String()
		}
	case "pktline":
		mb := misc.NewBuffer(nil)
		for i := range p.Sizes {
			n := sz(i)
			if n > 60000 {
				n = 60000
			}
			if err := pktline.WritePktLine(&buf, mb, c18RandStr(r, n)); err != nil {
				return nil, nil, err
			}
		}
		decode = func(rd io.Reader) string {
			var out bytes.Buffer
			ps := encoding.NewParser(rd)
			for i := 0; i < len(p.Sizes)+2; i++ {
				s, err := pktline.ReadPktLine(ps)
				if err != nil {
					fmt.Fprintf(&out, "end:%v", err)
					break
				}
				fmt.Fprintf(&out, "%q;", s)
			}
			return out.String()
		}
	case "commit":
		c := &objects.Commit{Table: c18RandBytes(r, 16), AuthorName: c18RandStr(r, sz(0)%300), AuthorEmail: c18RandStr(r, sz(1)%300),
			Message: c18RandStr(r, sz(2)%65536), Time: time.Unix(int64(r.Intn(2000000000)), 0).In(time.FixedZone("", (r.Intn(27)-13)*3600))}
		np := len(p.Sizes) % 4
		for i := 0; i < np; i++ {
			c.Parents = append(c.Parents, c18RandBytes(r, 16))
		}
		if len(c.Message) > 65535 {
			return nil, nil, fmt.Errorf("message too long")
		}
		if _, err := c.WriteTo(&buf); err != nil {
			return nil, nil, err
		}
		decode = func(rd io.Reader) string {
			n, c2, err := objects.ReadCommitFrom(rd)
			if err != nil {
				return "err:" + err.Error()
			}
			return fmt.Sprintf("n=%d %x %q %q %q %s %x", n, c2.Table, c2.AuthorName, c2.AuthorEmail, c2.Message, c2.Time.Format(time.RFC3339), c2.Parents)
		}
	case "table":
		nb := len(p.Sizes)
		rows := 0
		if nb > 0 {
			rows = (nb-1)*255 + 1 + sz(0)%255
		}
		tb := &objects.Table{Columns: []string{"a", c18RandStr(r, sz(1)%100), "c"}, PK: []uint32{0}, RowsCount: uint32(rows)}
		for i := 0; i < nb; i++ {
			tb.Blocks = append(tb.Blocks, c18RandBytes(r, 16))
			tb.BlockIndices = append(tb.BlockIndices, c18RandBytes(r, 16))
		}
		if _, err := tb.WriteTo(&buf); err != nil {
			return nil, nil, err
		}
		decode = func(rd io.Reader) string {
			n, t2, err := objects.ReadTableFrom(rd)
			if err != nil {
				return "err:" + err.Error()
			}
			return fmt.Sprintf("n=%d %q %v %d %x %x", n, t2.Columns, t2.PK, t2.RowsCount, t2.Blocks, t2.BlockIndices)
		}
	case "block", "blockindex":
		var blk [][]string
		for i := range p.Sizes {
			blk = append(blk, []string{fmt.Sprintf("%04d", i), c18RandStr(r, sz(i)%5000), ""})
			if len(blk) >= 255 {
				break
			}
		}
		if p.Kind == "block" {
			if _, err := objects.WriteBlockTo(objects.NewStrListEncoder(true), &buf, blk); err != nil {
				return nil, nil, err
			}
			decode = func(rd io.Reader) string {
				n, b2, err := objects.ReadBlockFrom(rd)
				if err != nil {
					return "err:" + err.Error()
				}
				return fmt.Sprintf("n=%d %q", n, b2)
			}
		} else {
			idx, err := objects.IndexBlock(objects.NewStrListEncoder(true), newMeow(), blk, []uint32{0})
			if err != nil {
				return nil, nil, err
			}
			if _, err := idx.WriteTo(&buf); err != nil {
				return nil, nil, err
			}
			decode = func(rd io.Reader) string {
				n, i2, err := objects.ReadBlockIndex(rd)
				if err != nil {
					return "err:" + err.Error()
				}
				var b2 bytes.Buffer
				i2.WriteTo(&b2)
				return fmt.Sprintf("n=%d %x", n, b2.Bytes())
			}
		}
	case "profile":
		tp := &objects.TableProfile{RowsCount: uint32(sz(0))}
		for i := range p.Sizes {
			f := float64(sz(i)) / 3
			cp := &objects.ColumnProfile{Name: c18RandStr(r, 1+sz(i)%40), NACount: uint32(i), MinStrLen: 1, MaxStrLen: uint16(sz(i) % 65536), AvgStrLen: 3}
			if i%2 == 0 {
				cp.Min, cp.Max, cp.Mean = &f, &f, &f
				cp.Percentiles = []float64{1, 2, f}
			}
			if i%3 == 0 {
				cp.TopValues = objects.ValueCounts{{Value: c18RandStr(r, sz(i)%200), Count: 7}, {Value: "", Count: 1}}
			}
			tp.Columns = append(tp.Columns, cp)
		}
		if _, err := tp.WriteTo(&buf); err != nil {
			return nil, nil, err
		}
		decode = func(rd io.Reader) string {
			t2 := &objects.TableProfile{}
			n, err := t2.ReadFrom(rd)
			if err != nil {
				return "err:" + err.Error()
			}
			j, _ := json.Marshal(t2)
			return fmt.Sprintf("n=%d %s", n, j)
		}
	case "strlist":
		var sl []string
		for i := range p.Sizes {
			sl = append(sl, c18RandStr(r, sz(i)%65536))
		}
		buf.Write(objects.NewStrListEncoder(true).Encode(sl))
		buf.Write(objects.NewStrListEncoder(true).Encode([]string{"tail"}))
		decode = func(rd io.Reader) string {
			d := objects.NewStrListDecoder(false)
			n, s2, err := d.Read(rd)
			if err != nil {
				return "err:" + err.Error()
			}
			n2, b2, err := d.ReadBytes(rd)
			return fmt.Sprintf("n=%d %q n2=%d %x err=%v", n, s2, n2, b2, err)
		}
	case "uintlist":
		var ul []uint32
		for i := range p.Sizes {
			ul = append(ul, uint32(sz(i))*2654435761)
		}
		buf.Write(objects.NewUintListEncoder().Encode(ul))
		decode = func(rd io.Reader) string {
			n, u2, err := objects.NewUintListDecoder(false).Read(rd)
			if err != nil {
				return "err:" + err.Error()
			}
			return fmt.Sprintf("n=%d %v", n, u2)
		}
	default:
		return nil, nil, fmt.Errorf("unknown kind %q", p.Kind)
	}
	return buf.Bytes(), decode, nil
}

func execC18(t *testing.T, raw json.RawMessage, res *Result) {
	var p C18Plan
	if err := json.Unmarshal(raw, &p); err != nil {
		res.Invalid("plan: %v", err)
		return
	}
	if len(p.Sizes) > 300 || len(p.Cuts) > 1000 {
		res.Invalid("plan too large")
		return
	}
	stream, decode, err := c18Build(&p)
	if err != nil {
		res.Invalid("build: %v", err)
		return
	}
	want := decode(bytes.NewReader(stream))
	pr := NewPartReader(stream, p.Cuts, p.EOFLast)
	got := decode(pr)
	res.stat("sim_steps", float64(pr.Reads))
	if got != want {
		res.Violate("chunking-"+p.Kind, "%s stream of %d bytes, cuts %v eofWithLast=%v:\n whole-buffer: %s\n partitioned:  %s", p.Kind, len(stream), p.Cuts, p.EOFLast, clipS(want), clipS(got))
		return
	}
	if len(p.Cuts) > 0 {
		res.probe("partitioned", 1)
		if p.Cuts[0] < 8 {
			res.probe("cut_inside_header", 1)
		}
	}
	if p.EOFLast {
		res.probe("data_plus_eof", 1)
	}
	res.Nontrivial = pr.Reads >= 3 && len(p.Cuts) > 0
}

func clipS(s string) string {
	if len(s) > 300 {
		return s[:300] + "…"
	}
	return s
}
