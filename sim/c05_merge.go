package sim

// C05: three-way merge against scenarios whose result is known by construction.
// Driver mirrors cmd/wrgl/merge_cmd.go: collectMergeConflicts (drain the merge
// channel first), then commitMergeResult (SortedBlocks -> IngestTableFromBlocks)
// or saveMergeResultToCSV (SortedRows).

import (
	"context"
	"encoding/json"
	"fmt"
	"sort"
	"testing"
	"time"

	"github.com/go-logr/logr"
	"github.com/wrgl/wrgl/pkg/diff"
	"github.com/wrgl/wrgl/pkg/index"
	"github.com/wrgl/wrgl/pkg/ingest"
	"github.com/wrgl/wrgl/pkg/merge"
	"github.com/wrgl/wrgl/pkg/objects"
	"github.com/wrgl/wrgl/pkg/slice"
	"github.com/wrgl/wrgl/pkg/sorter"
)

type mCell struct {
	B   int    `json:"b"`
	Row int    `json:"row"`
	Col int    `json:"col"`
	Val string `json:"val"`
}
type mRow struct {
	B   int `json:"b"`
	Row int `json:"row"`
}
type mAdd struct {
	B     int      `json:"b"`
	Cells []string `json:"cells"`
}
type mColAdd struct {
	B     int    `json:"b"`
	Name  string `json:"name"`
	At    int    `json:"at"`
	Plain bool   `json:"plain,omitempty"` // cell values do not depend on the column name (two branches adding different columns then hold byte-identical rows)
}
type mColOp struct {
	B    int    `json:"b"`
	Col  int    `json:"col"`
	To   int    `json:"to,omitempty"`
	Name string `json:"name,omitempty"`
}
type mAddAdd struct {
	Col  int    `json:"col"`
	ValA string `json:"val_a"`
	ValB string `json:"val_b"`
}

type mConflict struct {
	Kind string `json:"kind"` // cell | remove-modify
	Row  int    `json:"row"`
	Col  int    `json:"col"`
	A    int    `json:"a"`
	B    int    `json:"b"`
}

type MergeScenario struct {
	Base       TableSpec   `json:"base"`
	Synth      *SynthSpec  `json:"synth,omitempty"` // large base (key first) instead of Base
	KeyPos     int         `json:"key_pos"`         // with Synth: move the key column to this position
	NBranch    int         `json:"nbranch"`
	Identical  bool        `json:"identical"` // every branch gets branch 0's edits
	Cells      []mCell     `json:"cells,omitempty"`
	Removes    []mRow      `json:"removes,omitempty"`
	Adds       []mAdd      `json:"adds,omitempty"`
	ColAdds    []mColAdd   `json:"col_adds,omitempty"`
	ColRemoves []mColOp    `json:"col_removes,omitempty"`
	ColMoves   []mColOp    `json:"col_moves,omitempty"`
	ColRenames []mColOp    `json:"col_renames,omitempty"`
	Conflicts  []mConflict `json:"conflicts,omitempty"`
	Order      []int       `json:"order,omitempty"` // order in which branches are listed
	HashBatch  uint32      `json:"hash_batch"`
	Output     string      `json:"output"` // blocks | rows
	Workers    int         `json:"workers"`
	// KeyPerm: branch KeyPermB declares the same key columns in another order (permutation of the key
	// positions); the merge must be refused or give the right result, never lose rows silently
	// AddAdd: branches 0 and 1 both add one row with the same new key; the rows differ in one non-key cell
	// (column AddAdd.Col), where one branch may hold the empty string: a conflict, never a silent pick
	AddAdd   *mAddAdd `json:"add_add,omitempty"`
	SwapCols bool  `json:"swap_cols,omitempty"` // generator marker: branch 0 swaps two columns by name, row bytes unchanged
	KeyPerm  []int `json:"key_perm,omitempty"`
	KeyPermB int   `json:"key_perm_b,omitempty"`
}

func genMergeScenario(r *Rand, tier string) MergeScenario {
	sc := MergeScenario{NBranch: Pick(r, []int{2, 2, 3}), HashBatch: Pick(r, []uint32{0, 1, 2, 7}), Output: Pick(r, []string{"blocks", "rows"}), Workers: Pick(r, []int{1, 4, 8})}
	var cols, pk []string
	nrows := 0
	if r.Chance(0.3) {
		s := SynthSpec{N: Pick(r, []int{200, 255, 256, 300, 520, 700}), NCols: r.Range(2, 4), Seed: r.Uint64()}
		sc.Synth = &s
		sc.KeyPos = r.Intn(s.NCols)
	} else {
		sc.Base = GenTable(r.Sub("base"), GenOpts{MaxRows: 30, MaxCols: 5, AllowNoPK: true, UniqueKeys: true, SimpleOnly: true})
	}
	{
		var rows [][]string
		cols, pk, rows = sc.baseTable()
		nrows = len(NormaliseCSV(cols, DedupeByKey(cols, pk, rows)))
	}
	pkIdx, _ := pkIndices(cols, pk)
	nonKey := []int{}
	for j := range cols {
		if !contains(pkIdx, j) && len(pkIdx) > 0 {
			nonKey = append(nonKey, j)
		}
	}
	colOpBranch := -1 // the single branch allowed to do column operations
	family := r.Intn(10) // 0: one branch = base; 1: identical; else disjoint (+ maybe conflicts)
	if family == 1 {
		sc.Identical = true
	}
	editBranches := sc.NBranch
	if family == 0 {
		editBranches = sc.NBranch - 1 // last branch stays equal to base
	}
	if sc.Identical {
		editBranches = 1
	}
	rowOwner := map[int]int{} // row -> branch that touches it structurally (remove)
	cellOwner := map[[2]int]int{}
	colOwner := map[int]int{} // col -> branch that removes/renames it
	// column-level ops (only with a key: keyless tables need equal columns)
	multiCol := false
	if len(pkIdx) > 0 && editBranches >= 2 && !sc.Identical && r.Chance(0.12) {
		// two branches each add a column of their own
		multiCol = true
		colOpBranch = 0
		at := r.Intn(len(cols) + 1)
		plain := r.Chance(0.7)
		for b := 0; b < 2; b++ {
			a := at
			if r.Chance(0.2) {
				a = r.Intn(len(cols) + 1)
			}
			sc.ColAdds = append(sc.ColAdds, mColAdd{B: b, Name: fmt.Sprintf("new%d", b), At: a, Plain: plain})
		}
	} else if len(pkIdx) > 0 && r.Chance(0.45) {
		colOpBranch = r.Intn(editBranches)
		for k := r.Range(1, 2); k > 0; k-- {
			b := colOpBranch
			switch r.Intn(4) {
			case 0:
				sc.ColAdds = append(sc.ColAdds, mColAdd{B: b, Name: fmt.Sprintf("new%d_%d", b, k), At: r.Intn(len(cols) + 1)})
			case 1:
				if len(nonKey) > 0 {
					c := Pick(r, nonKey)
					if _, ok := colOwner[c]; !ok {
						colOwner[c] = b
						sc.ColRemoves = append(sc.ColRemoves, mColOp{B: b, Col: c})
					}
				}
			case 2:
				if len(cols) > 1 {
					sc.ColMoves = append(sc.ColMoves, mColOp{B: b, Col: r.Intn(len(cols)), To: r.Intn(len(cols))})
				}
			case 3:
				if len(nonKey) > 0 {
					c := Pick(r, nonKey)
					if _, ok := colOwner[c]; !ok {
						colOwner[c] = b
						sc.ColRenames = append(sc.ColRenames, mColOp{B: b, Col: c, Name: fmt.Sprintf("ren%d_%d", b, k)})
					}
				}
			}
		}
	}
	if nrows > 0 {
		ne := r.Range(0, 6)
		for k := 0; k < ne; k++ {
			b := r.Intn(editBranches)
			row := r.Intn(nrows)
			if r.Chance(0.3) {
				row = Pick(r, []int{0, nrows - 1, min(254, nrows-1), min(255, nrows-1)})
			}
			switch {
			case r.Chance(0.6) && len(nonKey) > 0:
				c := Pick(r, nonKey)
				if _, rem := rowOwner[row]; rem {
					continue
				}
				if o, ok := colOwner[c]; ok && o != b {
					continue // another branch removes/renames this column
				}
				if _, ok := cellOwner[[2]int{row, c}]; ok {
					continue
				}
				cellOwner[[2]int{row, c}] = b
				sc.Cells = append(sc.Cells, mCell{B: b, Row: row, Col: c, Val: fmt.Sprintf("E%d_%d_%d", b, row, c)})
			default:
				touched := false
				for k2 := range cellOwner {
					if k2[0] == row {
						touched = true
					}
				}
				if _, ok := rowOwner[row]; ok || touched {
					continue
				}
				if (colOpBranch >= 0 && b != colOpBranch) || multiCol {
					continue // a row removal next to another branch's column change is a (legitimate) conflict
				}
				rowOwner[row] = b
				sc.Removes = append(sc.Removes, mRow{B: b, Row: row})
			}
		}
	}
	for k := r.Range(0, 3); k > 0; k-- {
		b := r.Intn(editBranches)
		cells := make([]string, len(cols))
		for j := range cells {
			cells[j] = fmt.Sprintf("n%d", r.Intn(9))
			if contains(pkIdx, j) || len(pkIdx) == 0 {
				cells[j] = fmt.Sprintf("%sZ%d_%d", Pick(r, []string{"", "0", "zz"}), b, k)
			}
		}
		sc.Adds = append(sc.Adds, mAdd{B: b, Cells: cells})
	}
	// conflicts (family d)
	if !sc.Identical && family >= 7 && nrows > 0 && len(nonKey) > 0 && sc.NBranch >= 2 && editBranches >= 2 {
		row := r.Intn(nrows)
		c := Pick(r, nonKey)
		free := true
		if _, ok := rowOwner[row]; ok {
			free = false
		}
		for k2 := range cellOwner {
			if k2[0] == row {
				free = false
			}
		}
		if _, ok := colOwner[c]; ok {
			free = false
		}
		if free {
			kind := Pick(r, []string{"cell", "remove-modify"})
			if colOpBranch >= 0 {
				kind = "cell"
			}
			sc.Conflicts = append(sc.Conflicts, mConflict{Kind: kind, Row: row, Col: c, A: 0, B: 1})
		}
	}
	if sc.Synth == nil && len(pkIdx) > 0 && len(nonKey) >= 2 && nrows > 0 && nrows <= 12 && !sc.Identical &&
		len(sc.ColAdds)+len(sc.ColRemoves)+len(sc.ColMoves)+len(sc.ColRenames)+len(sc.Cells)+len(sc.Removes)+len(sc.Conflicts) == 0 && r.Chance(0.5) {
		// one branch swaps two columns by name but keeps every row's bytes: all its cells in
		// those two columns changed, although a byte-wise comparison with the base sees nothing
		_, _, brows := sc.baseTable()
		brows = NormaliseCSV(cols, DedupeByKey(cols, pk, brows))
		if len(brows) == nrows {
			a, b2 := nonKey[0], nonKey[1]
			if len(nonKey) > 2 && r.Chance(0.5) {
				a, b2 = nonKey[len(nonKey)-2], nonKey[len(nonKey)-1]
			}
			sc.ColMoves = append(sc.ColMoves, mColOp{B: 0, Col: a, To: b2}, mColOp{B: 0, Col: b2, To: a})
			for i, row := range brows {
				if row[a] != row[b2] {
					sc.Cells = append(sc.Cells, mCell{B: 0, Row: i, Col: a, Val: row[b2]}, mCell{B: 0, Row: i, Col: b2, Val: row[a]})
				}
			}
			sc.SwapCols = true
		}
	}
	if len(pkIdx) > 0 && len(nonKey) > 0 && !sc.Identical && editBranches >= 2 && !hasAnyColOps(&sc) && r.Chance(0.12) {
		va, vb := Pick(r, []string{"", "", "x", "0"}), Pick(r, []string{"y", "x ", "1"})
		if r.Chance(0.5) {
			va, vb = vb, va
		}
		sc.AddAdd = &mAddAdd{Col: Pick(r, nonKey), ValA: va, ValB: vb}
	}
	sc.Order = r.Perm(sc.NBranch)
	if len(pkIdx) >= 2 && r.Chance(0.1) {
		for tries := 0; tries < 5; tries++ {
			perm := r.Perm(len(pkIdx))
			ident := true
			for i, x := range perm {
				if i != x {
					ident = false
				}
			}
			if !ident {
				sc.KeyPerm, sc.KeyPermB = perm, r.Intn(sc.NBranch+1)-1 // -1: the base declares the other order
				break
			}
		}
	}
	return sc
}

func hasAnyColOps(sc *MergeScenario) bool {
	return len(sc.ColAdds)+len(sc.ColRemoves)+len(sc.ColMoves)+len(sc.ColRenames) > 0
}

func (sc *MergeScenario) baseTable() (cols, pk []string, rows [][]string) {
	if sc.Synth != nil {
		cols, pk, rows = sc.Synth.Build()
		kp := sc.KeyPos
		if kp > 0 && kp < len(cols) {
			cols, _, rows = ApplyEdits(cols, nil, rows, []Edit{{Op: "movecol", Col: 0, To: kp}})
		}
		return
	}
	c, r := sc.Base.Materialise()
	return c, sc.Base.PK, r
}

func init() {
	Register(&Profile{
		ID: "C05", Prop: "C05",
		Rule: "constructive merge scenarios: base table (key at any position or none, 1-3 blocks) x 2-3 branches built from disjoint cell edits, row adds/removes, column add/remove/move/rename; families: one branch = base, identical branches, disjoint edits, declared conflicts (same cell / remove-vs-modify); branch list permuted; result via SortedBlocks+IngestTableFromBlocks or SortedRows, hash-set batch 1..default; non-trivial = >=2 branches with edits or a conflict or a column operation; distinct by plan hash",
		Gen:  func(seed uint64, tier string) any { return genMergeScenario(NewRand(seed), tier) },
		Exec: execC05,
	})
}

type mergeOutcome struct {
	Cols      []string
	PK        []string
	Rows      [][]string
	Conflicts []*merge.Merge
	CD        *diff.ColDiff
	TableSum  []byte
}

// runMerge drives merge.Merger the way the CLI does. resolve decides what to
// save for each reported conflict (nil = remove the row).
// consumer "early" asks the merger for its columns and key right after the first message, as
// `wrgl merge --no-gui` (outputConflicts) does, instead of draining the channel first.
func runMerge(t *testing.T, st *Store, baseSum []byte, otherSums [][]byte, hashBatch uint32, output string, workers int, consumer ...string) (out *mergeOutcome, err error) {
	early := len(consumer) > 0 && consumer[0] == "early"
	out = &mergeOutcome{}
	baseT, err := objects.GetTable(st, baseSum)
	if err != nil {
		return nil, err
	}
	otherTs := make([]*objects.Table, len(otherSums))
	for i, s := range otherSums {
		otherTs[i], err = objects.GetTable(st, s)
		if err != nil {
			return nil, err
		}
	}
	buf, err := diff.BlockBufferWithSingleStore(st, append([]*objects.Table{baseT}, otherTs...))
	if err != nil {
		return nil, err
	}
	hs, err := index.NewHashSet(NewSimFile(), hashBatch)
	if err != nil {
		return nil, err
	}
	collector, err := merge.NewCollector(st, baseT, hs)
	if err != nil {
		return nil, err
	}
	merger, err := merge.NewMerger(st, collector, buf, 65*time.Millisecond, baseT, otherTs, baseSum, otherSums, logr.Discard())
	if err != nil {
		return nil, err
	}
	defer merger.Close()
	// merge phase 1: the merger busy-polls, so store reads are not parked (DESIGN 2.3)
	if st.Sched != nil {
		st.Sched.SetActive(false)
	}
	mch, err := merger.Start()
	if err != nil {
		if st.Sched != nil {
			st.Sched.SetActive(true)
		}
		return nil, err
	}
	var merges []*merge.Merge
	var earlyCols, earlyPK []string
	for m := range mch { // drain first, as collectMergeConflicts does
		merges = append(merges, m)
		if early && len(merges) == 1 {
			earlyCols = append([]string(nil), merger.Columns(nil)...)
			earlyPK = append([]string(nil), merger.PK()...)
		}
	}
	if early && len(merges) > 0 {
		if !rowsEqual(earlyCols, merger.Columns(nil)) || !rowsEqual(earlyPK, merger.PK()) {
			if st.Sched != nil {
				st.Sched.SetActive(true)
			}
			return nil, fmt.Errorf("merger reported columns %q / key %q right after the column diff message and %q / %q once the channel was drained", earlyCols, earlyPK, merger.Columns(nil), merger.PK())
		}
	}
	if st.Sched != nil {
		st.Sched.SetActive(true)
	}
	if err = merger.Error(); err != nil {
		return nil, err
	}
	if len(merges) == 0 {
		return nil, fmt.Errorf("merge channel closed without a column diff")
	}
	cd := merges[0].ColDiff
	out.CD = cd
	out.Conflicts = merges[1:]
	for _, m := range out.Conflicts {
		// what the merge UI does on "accept resolution": keep the resolved row
		if err = merger.SaveResolvedRow(m.PK, m.ResolvedRow); err != nil {
			return nil, err
		}
	}
	removedCols := map[int]struct{}{}
	for _, layer := range cd.Removed {
		for col := range layer {
			removedCols[int(col)] = struct{}{}
		}
	}
	out.Cols = merger.Columns(removedCols)
	out.PK = merger.PK()
	ctx, cancel := context.WithCancel(context.Background())
	defer cancel()
	if output == "rows" {
		rc, err := merger.SortedRows(ctx, removedCols)
		if err != nil {
			return nil, err
		}
		for blk := range rc {
			for _, row := range blk.Rows {
				out.Rows = append(out.Rows, append([]string(nil), row...))
			}
		}
		if err = merger.Error(); err != nil {
			return nil, err
		}
		return out, nil
	}
	pk, err := slice.KeyIndices(out.Cols, out.PK)
	if err != nil {
		return nil, err
	}
	blocks, err := merger.SortedBlocks(ctx, removedCols)
	if err != nil {
		return nil, err
	}
	s, err := sorter.NewSorter()
	if err != nil {
		return nil, err
	}
	sum, err := ingest.IngestTableFromBlocks(st, s, out.Cols, pk, blocks, logr.Discard(), ingest.WithNumWorkers(workers))
	if err != nil {
		return nil, err
	}
	if err = merger.Error(); err != nil {
		return nil, err
	}
	out.TableSum = sum
	_, out.Rows, err = ReadTableRaw(st, sum)
	return out, err
}

func execC05(t *testing.T, raw json.RawMessage, res *Result) {
	var sc MergeScenario
	if err := json.Unmarshal(raw, &sc); err != nil {
		res.Invalid("plan: %v", err)
		return
	}
	if sc.NBranch < 2 || sc.NBranch > 4 || (sc.Output != "blocks" && sc.Output != "rows") {
		res.Invalid("plan: nbranch/output")
		return
	}
	if sc.Synth != nil {
		if sc.Synth.N < 0 || sc.Synth.N > 3000 || sc.Synth.NCols > 8 {
			res.Invalid("synth")
			return
		}
	} else if err := sc.Base.Validate(); err != nil {
		res.Invalid("plan: %v", err)
		return
	}
	cols, pk, rows := sc.baseTable()
	rows = NormaliseCSV(cols, DedupeByKey(cols, pk, rows))
	pkIdx, err := pkIndices(cols, pk)
	if err != nil {
		res.Invalid("%v", err)
		return
	}
	nb := sc.NBranch
	okB := func(b int) bool { return b >= 0 && b < nb }
	okRow := func(i int) bool { return i >= 0 && i < len(rows) }
	okCol := func(j int) bool { return j >= 0 && j < len(cols) && !contains(pkIdx, j) }
	branchOf := func(b int) []int { // which real branches get edit-branch b's edits
		if sc.Identical {
			all := make([]int, nb)
			for i := range all {
				all[i] = i
			}
			return all
		}
		return []int{b}
	}
	hasColOps := len(sc.ColAdds)+len(sc.ColRemoves)+len(sc.ColMoves)+len(sc.ColRenames) > 0
	if len(pkIdx) == 0 && hasColOps {
		res.Invalid("keyless tables need equal columns")
		return
	}
	if len(pkIdx) == 0 && (len(sc.Cells) > 0 || len(sc.Conflicts) > 0) {
		res.Invalid("keyless tables: a cell edit is a remove plus an add")
		return
	}
	addBranches := map[int]bool{}
	for _, c := range sc.ColAdds {
		addBranches[c.B] = true
	}
	if hasColOps && !sc.Identical && len(addBranches) >= 2 {
		// several branches add columns: nothing else may touch the layout or remove rows
		if len(sc.ColRemoves)+len(sc.ColMoves)+len(sc.ColRenames) > 0 || len(sc.Removes) > 0 {
			res.Invalid("column adds in several branches next to other layout changes or row removals")
			return
		}
		for _, c := range sc.Conflicts {
			if c.Kind == "remove-modify" {
				res.Invalid("remove-modify with column ops")
				return
			}
		}
		res.probe("column_adds_in_two_branches", 1)
	} else if hasColOps && !sc.Identical {
		colB := -1
		for _, lst := range [][]int{colOpBranches(sc.ColAdds), opBranches(sc.ColRemoves), opBranches(sc.ColMoves), opBranches(sc.ColRenames)} {
			for _, b := range lst {
				if colB >= 0 && b != colB {
					res.Invalid("column operations in two branches")
					return
				}
				colB = b
			}
		}
		for _, r := range sc.Removes {
			if r.B != colB {
				res.Invalid("row removal next to another branch's column change is a legitimate conflict")
				return
			}
		}
		for _, c := range sc.Conflicts {
			if c.Kind == "remove-modify" {
				res.Invalid("remove-modify with column ops")
				return
			}
		}
	}
	// ---- validate disjointness; build per-branch state ----
	type rowKey = string
	keyOfRow := func(r []string) rowKey { return keyStr(keyOf(r, pkIdx)) }
	removedBy := map[int]int{}     // base row -> branch
	cellBy := map[[2]int]mCell{}   // (row,col) -> edit
	colGoneBy := map[int]int{}     // base col removed/renamed by branch
	renameTo := map[int]string{}   // base col -> new name
	newColNames := map[string]int{} // name -> branch
	for _, c := range sc.ColRemoves {
		if !okB(c.B) || !okCol(c.Col) {
			res.Invalid("col remove")
			return
		}
		if _, ok := colGoneBy[c.Col]; ok {
			res.Invalid("column touched twice")
			return
		}
		colGoneBy[c.Col] = c.B
	}
	for _, c := range sc.ColRenames {
		if !okB(c.B) || !okCol(c.Col) || c.Name == "" {
			res.Invalid("col rename")
			return
		}
		if _, ok := colGoneBy[c.Col]; ok {
			res.Invalid("column touched twice")
			return
		}
		for _, x := range cols {
			if x == c.Name {
				res.Invalid("rename clashes")
				return
			}
		}
		if _, ok := newColNames[c.Name]; ok {
			res.Invalid("name clash")
			return
		}
		colGoneBy[c.Col] = c.B
		renameTo[c.Col] = c.Name
		newColNames[c.Name] = c.B
	}
	for _, c := range sc.ColAdds {
		if !okB(c.B) || c.Name == "" || c.At < 0 || c.At > len(cols) {
			res.Invalid("col add")
			return
		}
		for _, x := range cols {
			if x == c.Name {
				res.Invalid("add clashes")
				return
			}
		}
		if _, ok := newColNames[c.Name]; ok {
			res.Invalid("name clash")
			return
		}
		newColNames[c.Name] = c.B
	}
	for _, c := range sc.ColMoves {
		if !okB(c.B) || c.Col < 0 || c.Col >= len(cols) || c.To < 0 || c.To >= len(cols) {
			res.Invalid("col move")
			return
		}
	}
	conflictRows := map[int]mConflict{}
	for _, c := range sc.Conflicts {
		if !okB(c.A) || !okB(c.B) || c.A == c.B || !okRow(c.Row) || !okCol(c.Col) || sc.Identical {
			res.Invalid("conflict spec")
			return
		}
		if _, ok := colGoneBy[c.Col]; ok {
			res.Invalid("conflict on removed column")
			return
		}
		if _, ok := conflictRows[c.Row]; ok {
			res.Invalid("two conflicts on one row")
			return
		}
		conflictRows[c.Row] = c
	}
	for _, r := range sc.Removes {
		if !okB(r.B) || !okRow(r.Row) {
			res.Invalid("remove")
			return
		}
		if _, ok := removedBy[r.Row]; ok {
			res.Invalid("row removed twice")
			return
		}
		if _, ok := conflictRows[r.Row]; ok {
			res.Invalid("remove on conflict row")
			return
		}
		removedBy[r.Row] = r.B
	}
	for _, c := range sc.Cells {
		if !okB(c.B) || !okRow(c.Row) || !okCol(c.Col) {
			res.Invalid("cell")
			return
		}
		if _, ok := removedBy[c.Row]; ok {
			res.Invalid("edit on removed row")
			return
		}
		if _, ok := conflictRows[c.Row]; ok {
			res.Invalid("edit on conflict row")
			return
		}
		if o, ok := colGoneBy[c.Col]; ok && o != c.B && !sc.Identical {
			res.Invalid("edit in a column another branch removes")
			return
		}
		if _, ok := cellBy[[2]int{c.Row, c.Col}]; ok {
			res.Invalid("cell edited twice")
			return
		}
		v := ToBytes(ExpandCell(c.Val))
		if v == rows[c.Row][c.Col] {
			v += "!"
		}
		c.Val = v
		cellBy[[2]int{c.Row, c.Col}] = c
	}
	baseKeys := map[rowKey]bool{}
	for _, r := range rows {
		baseKeys[keyOfRow(r)] = true
	}
	addKeys := map[rowKey]bool{}
	for _, a := range sc.Adds {
		if !okB(a.B) || len(a.Cells) != len(cols) {
			res.Invalid("add")
			return
		}
		k := keyOfRow(a.Cells)
		if baseKeys[k] || addKeys[k] {
			res.Invalid("added key exists")
			return
		}
		addKeys[k] = true
	}
	plainCols := map[string]bool{}
	for _, c := range sc.ColAdds {
		if c.Plain {
			plainCols[c.Name] = true
		}
	}
	addedVal := func(name string, key rowKey) string {
		if plainCols[name] {
			return "P:" + fmt.Sprintf("%x", meowSum([]byte(key))[:3])
		}
		return "A:" + name + ":" + fmt.Sprintf("%x", meowSum([]byte(key))[:3])
	}

	var addAddRow []string
	if sc.AddAdd != nil {
		if hasColOps || sc.Identical || nb < 2 || len(pkIdx) == 0 || !okCol(sc.AddAdd.Col) || sc.AddAdd.ValA == sc.AddAdd.ValB {
			res.Invalid("add_add")
			return
		}
		addAddRow = make([]string, len(cols))
		for j := range addAddRow {
			addAddRow[j] = "aa"
			if contains(pkIdx, j) {
				addAddRow[j] = "ZZ-ADDADD"
			}
		}
		if k := keyOfRow(addAddRow); baseKeys[k] || addKeys[k] {
			res.Invalid("add_add key exists")
			return
		}
		res.probe("same_key_added_in_two_branches", 1)
	}
	// ---- build branch tables ----
	type branchTable struct {
		cols []string
		rows [][]string
	}
	branches := make([]branchTable, nb)
	for b := 0; b < nb; b++ {
		var rs [][]string
		for i, r := range rows {
			row := append([]string(nil), r...)
			skip := false
			if rb, ok := removedBy[i]; ok && contains(branchOf(rb), b) {
				skip = true
			}
			if c, ok := conflictRows[i]; ok {
				switch c.Kind {
				case "cell":
					if b == c.A {
						row[c.Col] = "CONFLICT-A"
					} else if b == c.B {
						row[c.Col] = "CONFLICT-B"
					}
				case "remove-modify":
					if b == c.A {
						skip = true
					} else if b == c.B {
						row[c.Col] = "MODIFIED-B"
					}
				}
			}
			if skip {
				continue
			}
			for j := range row {
				if e, ok := cellBy[[2]int{i, j}]; ok && contains(branchOf(e.B), b) {
					row[j] = e.Val
				}
			}
			rs = append(rs, row)
		}
		for _, a := range sc.Adds {
			if contains(branchOf(a.B), b) {
				rs = append(rs, append([]string(nil), a.Cells...))
			}
		}
		if addAddRow != nil && b <= 1 {
			row := append([]string(nil), addAddRow...)
			row[sc.AddAdd.Col] = []string{sc.AddAdd.ValA, sc.AddAdd.ValB}[b]
			rs = append(rs, row)
		}
		bc := append([]string(nil), cols...)
		// column ops: rename, remove, add, move (by name so indices stay meaningful)
		for j, nn := range renameTo {
			if contains(branchOf(colGoneBy[j]), b) {
				for x := range bc {
					if bc[x] == cols[j] {
						bc[x] = nn
					}
				}
			}
		}
		for _, c := range sc.ColRemoves {
			if contains(branchOf(c.B), b) {
				for x := range bc {
					if bc[x] == cols[c.Col] {
						bc = append(bc[:x:x], bc[x+1:]...)
						for i := range rs {
							rs[i] = append(rs[i][:x:x], rs[i][x+1:]...)
						}
						break
					}
				}
			}
		}
		for _, c := range sc.ColAdds {
			if contains(branchOf(c.B), b) {
				at := c.At
				if at > len(bc) {
					at = len(bc)
				}
				bc = append(bc[:at:at], append([]string{c.Name}, bc[at:]...)...)
				for i := range rs {
					// key must be computed on base layout columns: find by name
					rs[i] = append(rs[i][:at:at], append([]string{"\x00PENDING"}, rs[i][at:]...)...)
				}
				// fill values now that layout is known
				bpk, _ := pkIndices(bc, pk)
				for i := range rs {
					rs[i][at] = addedVal(c.Name, keyStr(keyOf(rs[i], bpk)))
				}
			}
		}
		for _, c := range sc.ColMoves {
			if contains(branchOf(c.B), b) {
				name := cols[c.Col]
				from := -1
				for x := range bc {
					if bc[x] == name {
						from = x
					}
				}
				to := c.To
				if from < 0 || to >= len(bc) || from == to {
					continue
				}
				bc, _, rs = ApplyEdits(bc, nil, rs, []Edit{{Op: "movecol", Col: from, To: to}})
			}
		}
		branches[b] = branchTable{bc, rs}
	}

	// ---- expected result (conflict rows handled separately) ----
	expCols := map[string]bool{}
	for j, c := range cols {
		if _, gone := colGoneBy[j]; !gone {
			expCols[c] = true
		}
	}
	for name := range newColNames {
		expCols[name] = true
	}
	type expRow = map[string]string
	expected := map[rowKey]expRow{}
	conflictKeys := map[rowKey]mConflict{}
	for i, r := range rows {
		k := keyOfRow(r)
		if c, ok := conflictRows[i]; ok {
			conflictKeys[k] = c
			continue
		}
		if _, ok := removedBy[i]; ok {
			continue
		}
		er := expRow{}
		for j, c := range cols {
			v := r[j]
			if e, ok := cellBy[[2]int{i, j}]; ok {
				v = e.Val
			}
			if _, gone := colGoneBy[j]; gone {
				if nn, ok := renameTo[j]; ok {
					er[nn] = v
				}
				continue
			}
			er[c] = v
		}
		for _, ca := range sc.ColAdds {
			er[ca.Name] = addedVal(ca.Name, k)
		}
		expected[k] = er
	}
	for _, a := range sc.Adds {
		k := keyOfRow(a.Cells)
		er := expRow{}
		for name := range expCols {
			er[name] = ""
		}
		for j, c := range cols {
			if _, gone := colGoneBy[j]; gone {
				if nn, ok := renameTo[j]; ok && (sc.Identical || colGoneBy[j] == a.B) {
					er[nn] = a.Cells[j]
				}
				continue
			}
			er[c] = a.Cells[j]
		}
		for _, ca := range sc.ColAdds {
			if sc.Identical || ca.B == a.B {
				er[ca.Name] = addedVal(ca.Name, k)
			}
		}
		expected[k] = er
	}

	// ---- ingest and merge ----
	order := sc.Order
	if len(order) != nb {
		order = nil
		for i := 0; i < nb; i++ {
			order = append(order, i)
		}
	}
	seenO := map[int]bool{}
	for _, o := range order {
		if !okB(o) || seenO[o] {
			res.Invalid("order")
			return
		}
		seenO[o] = true
	}
	w := &World{}
	st := NewStore("L", w)
	permKey := func() ([]string, bool) {
		if len(sc.KeyPerm) != len(pk) {
			return nil, false
		}
		seenP := map[int]bool{}
		bpk := make([]string, len(pk))
		for x, y := range sc.KeyPerm {
			if y < 0 || y >= len(pk) || seenP[y] {
				return nil, false
			}
			seenP[y] = true
			bpk[x] = pk[y]
		}
		return bpk, true
	}
	keyReordered := false
	basePK := pk
	if len(sc.KeyPerm) > 0 && sc.KeyPermB == -1 {
		bpk, ok := permKey()
		if !ok {
			res.Invalid("key_perm")
			return
		}
		basePK = bpk
		keyReordered = !rowsEqual(bpk, pk)
	}
	baseSum, err := ingestPlain(t, st, cols, basePK, rows)
	if err != nil {
		res.Invalid("ingest base: %v", err)
		return
	}
	otherSums := make([][]byte, nb)
	for i, b := range order {
		bt := branches[b]
		nr := NormaliseCSV(bt.cols, bt.rows)
		if len(nr) != len(bt.rows) {
			res.Skip("branch rows not CSV-representable")
			return
		}
		bpk := pk
		if len(sc.KeyPerm) > 0 && b == sc.KeyPermB {
			if len(sc.KeyPerm) != len(pk) {
				res.Invalid("key_perm")
				return
			}
			seenP := map[int]bool{}
			bpk = make([]string, len(pk))
			for x, y := range sc.KeyPerm {
				if y < 0 || y >= len(pk) || seenP[y] {
					res.Invalid("key_perm")
					return
				}
				seenP[y] = true
				bpk[x] = pk[y]
			}
			keyReordered = !rowsEqual(bpk, pk)
		}
		otherSums[i], err = ingestPlain(t, st, bt.cols, bpk, bt.rows)
		if err != nil {
			res.Invalid("ingest branch: %v", err)
			return
		}
	}
	var out *mergeOutcome
	var mErr error
	bo := Bubble(t, 0, func(mainDone *bool) {
		out, mErr = runMerge(t, st, baseSum, otherSums, sc.HashBatch, sc.Output, sc.Workers)
		*mainDone = true
	})
	if bubbleProblems(res, bo, "merge") {
		return
	}
	if mErr != nil {
		if keyReordered {
			// a branch keyed by the same columns in another order identifies rows differently:
			// refusing the merge is a right answer
			res.probe("merge_refused_key_order", 1)
			res.Nontrivial = true
			return
		}
		res.Violate("merge-error", "merge failed: %v", mErr)
		return
	}
	if n := countTmp(); n > 0 {
		res.Violate("temp-file-left", "%d temp files left after merge", n)
		return
	}
	// conflicts reported must be exactly the declared ones
	opk, _ := pkIndices(out.Cols, out.PK)
	hashToKey := map[string]rowKey{}
	for i, r := range rows {
		_ = i
		k := keyOfRow(r)
		if len(pkIdx) == 0 {
			hashToKey[string(meowSum(encStrList(r)))] = k
		} else {
			hashToKey[string(meowSum(encStrList(keyOf(r, pkIdx))))] = k
		}
	}
	for _, a := range sc.Adds {
		k := keyOfRow(a.Cells)
		if len(pkIdx) == 0 {
			hashToKey[string(meowSum(encStrList(a.Cells)))] = k
		} else {
			hashToKey[string(meowSum(encStrList(keyOf(a.Cells, pkIdx))))] = k
		}
	}
	if addAddRow != nil {
		k := keyOfRow(addAddRow)
		hashToKey[string(meowSum(encStrList(keyOf(addAddRow, pkIdx))))] = k
		conflictKeys[k] = mConflict{Kind: "add-add", Col: sc.AddAdd.Col, A: 0, B: 1}
	}
	reported := map[rowKey]*merge.Merge{}
	for _, m := range out.Conflicts {
		k, ok := hashToKey[string(m.PK)]
		if !ok {
			res.Violate("conflict-unknown-key", "a conflict is reported for a key hash that belongs to no row")
			return
		}
		if _, declared := conflictKeys[k]; !declared {
			res.Violate("spurious-conflict", "conflict reported for key %q although the branches' changes to it do not conflict (resolved=%v unresolved cols %v)", k, m.Resolved, m.UnresolvedCols)
			return
		}
		reported[k] = m
	}
	for k, c := range conflictKeys {
		m, ok := reported[k]
		if !ok {
			res.Violate("silent-pick", "branches %d and %d made conflicting changes (%s) to key %q but no conflict was reported", c.A, c.B, c.Kind, k)
			return
		}
		if m.Resolved {
			res.Violate("silent-pick", "conflict (%s) on key %q is marked resolved", c.Kind, k)
			return
		}
		if c.Kind == "cell" || c.Kind == "add-add" {
			want := -1
			for x, name := range out.CD.Names {
				if name == cols[c.Col] {
					want = x
				}
			}
			if _, ok := m.UnresolvedCols[uint32(want)]; !ok {
				res.Violate("conflict-wrong-column", "conflict on key %q does not mark column %q unresolved (unresolved: %v of %v)", k, cols[c.Col], m.UnresolvedCols, out.CD.Names)
				return
			}
		}
	}
	// columns
	gotCols := map[string]int{}
	for x, c := range out.Cols {
		if _, dup := gotCols[c]; dup {
			res.Violate("columns-wrong", "merged columns %q contain a duplicate", out.Cols)
			return
		}
		gotCols[c] = x
	}
	for c := range expCols {
		if _, ok := gotCols[c]; !ok {
			res.Violate("columns-wrong", "merged columns %q lack %q", out.Cols, c)
			return
		}
	}
	if len(gotCols) != len(expCols) {
		res.Violate("columns-wrong", "merged columns %q, expected set %v", out.Cols, sortedSet(expCols))
		return
	}
	if len(out.PK) != len(pk) {
		res.Violate("pk-wrong", "merged pk %q, want %q", out.PK, pk)
		return
	}
	// rows
	gotKeys := map[rowKey]bool{}
	for i, r := range out.Rows {
		if len(r) != len(out.Cols) {
			res.Violate("ragged-row", "merged row %d has %d cells under %d columns %q: %s", i, len(r), len(out.Cols), out.Cols, clip(r))
			return
		}
		// key in terms of base pk column order
		kv := make([]string, len(pk))
		for x, name := range pk {
			kv[x] = r[gotCols[name]]
		}
		var k rowKey
		if len(pk) == 0 {
			k = keyStr(r)
		} else {
			k = keyStr(kv)
		}
		if gotKeys[k] {
			res.Violate("row-duplicated", "key %q appears twice in the merge result", k)
			return
		}
		gotKeys[k] = true
		if _, isConf := conflictKeys[k]; isConf {
			continue
		}
		er, ok := expected[k]
		if !ok {
			// maybe a row that should have been removed, or altered key
			res.Violate("unexpected-row", "merge result contains row %s (under %q) that the scenario does not produce (removed rows must stay removed; untouched rows must keep their key)", clip(r), out.Cols)
			return
		}
		for name, x := range gotCols {
			if r[x] != er[name] {
				res.Violate("cell-wrong", "key %q column %q = %q, expected %q (row %s under %q)", k, name, r[x], er[name], clip(r), out.Cols)
				return
			}
		}
	}
	for k := range expected {
		if !gotKeys[k] {
			res.Violate("row-missing", "expected key %q is absent from the merge result (%d rows, expected %d)", k, len(out.Rows), len(expected))
			return
		}
	}
	// order: keys ascending by merged pk
	for i := 1; i < len(out.Rows); i++ {
		a, b := keyOf(out.Rows[i-1], opk), keyOf(out.Rows[i], opk)
		if !lessKey(a, b) {
			res.Violate("order-wrong", "merged rows %d,%d not in ascending key order: %s then %s", i-1, i, clip(a), clip(b))
			return
		}
	}
	if out.TableSum != nil {
		if c, d := CheckTable(st, out.TableSum); c != "" {
			res.Violate("c03-"+c, "merge result table: %s", d)
			return
		}
	}
	res.stat("sim_steps", float64(w.Steps))
	res.stat("sim_time_s", bo.SimTime.Seconds())
	edited := map[int]bool{}
	for _, c := range sc.Cells {
		edited[c.B] = true
	}
	for _, c := range sc.Removes {
		edited[c.B] = true
	}
	for _, c := range sc.Adds {
		edited[c.B] = true
	}
	if hasColOps {
		res.probe("column_ops", 1)
	}
	if len(sc.Conflicts) > 0 {
		res.probe("conflicts", 1)
	}
	if len(pkIdx) == 0 {
		res.probe("keyless", 1)
	} else if pkIdx[0] != 0 {
		res.probe("key_not_first", 1)
	}
	if len(rows) > 255 {
		res.probe("multi_block", 1)
	}
	res.Nontrivial = len(edited) >= 2 || len(sc.Conflicts) > 0 || hasColOps
}

func sortedSet(m map[string]bool) []string {
	var s []string
	for k := range m {
		s = append(s, k)
	}
	sort.Strings(s)
	return s
}

func colOpBranches(xs []mColAdd) []int {
	var r []int
	for _, x := range xs {
		r = append(r, x.B)
	}
	return r
}

func opBranches(xs []mColOp) []int {
	var r []int
	for _, x := range xs {
		r = append(r, x.B)
	}
	return r
}
