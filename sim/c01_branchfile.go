package sim

// C01 (branch-file path): `wrgl commit BRANCH FILE MSG --set-file --set-primary-key`
// followed by a sequence of `wrgl commit BRANCH MSG` / `wrgl commit --all MSG` /
// `wrgl diff BRANCH` runs that read branch.file, with the file edited, touched
// or left alone between runs and the primary key overridden or re-declared.
// These runs go through the cached temporary commit (<branch>-tmp) whose reuse
// depends on the file's modification time relative to the simulated clock.

import (
	"bytes"
	"encoding/json"
	"fmt"
	"os"
	"strings"
	"testing"
	"time"

	"github.com/wrgl/wrgl/pkg/objects"
)

type BFStep struct {
	Edits   []Edit   `json:"edits,omitempty"`    // applied to the file before the run
	Touch   bool     `json:"touch,omitempty"`    // rewrite the unchanged file (new mtime)
	GapS    int      `json:"gap_s"`              // simulated seconds that pass before the file is touched/edited
	RunGapS int      `json:"run_gap_s"`          // simulated seconds between the edit and the command
	PK      []string `json:"pk,omitempty"`       // -p override
	SetPK   bool     `json:"set_pk,omitempty"`   // config set branch.main.primaryKey (before the run)
	NoCache bool     `json:"no_cache,omitempty"` // --no-cache
	All     bool     `json:"all,omitempty"`      // wrgl commit --all
	Diff    bool     `json:"diff,omitempty"`     // run `wrgl diff main` first (creates/refreshes the cached commit)
	// Explicit: `wrgl commit main FILE MSG [-p ...]` with the file named on the command line (no --set-file): the key is
	// what -p says, and none at all without -p - whatever branch.main.primaryKey holds
	Explicit bool `json:"explicit,omitempty"`
}

type C01BFPlan struct {
	Table TableSpec `json:"table"`
	Delim string    `json:"delim"`
	Steps []BFStep  `json:"steps"`
}

func init() {
	Register(&Profile{
		ID: "C01bf", Prop: "C01",
		Rule: "plan = generated CSV (unique keys, plain column names) x delimiter (ASCII and multi-byte) x 2..6 branch-file steps {edit cells/rows | touch | nothing} x {-p override: permutation of the key, other columns, none} x {config primaryKey change} x {--no-cache, --all, diff first} x simulated seconds between edit and run; the file's mtime is stamped from the node's simulated clock; after every run the branch head's table is read raw and exported and must equal the model of the file as it is now under the key in force; non-trivial = >=3 steps with >=1 unchanged-file run and >=1 key change",
		Gen: func(seed uint64, tier string) any {
			r := NewRand(seed)
			o := GenOpts{MaxRows: 40, MaxCols: 5, UniqueKeys: true, AllowNoPK: true, SimpleOnly: r.Chance(0.5)}
			var tb TableSpec
			for tries := 0; ; tries++ {
				tb = GenTable(r.Sub(fmt.Sprint("data", tries)), o)
				ok := len(tb.Cols) >= 2 || tries > 8
				for _, c := range tb.Cols {
					if strings.ContainsAny(c, ",\"\n") {
						ok = false
					}
				}
				if ok {
					break
				}
			}
			p := C01BFPlan{Table: tb, Delim: Pick(r, []string{",", ",", "|", ";", "\t", "§", "·", "、"})}
			cur := append([]string(nil), tb.PK...)
			perm := func(xs []string) []string {
				out := make([]string, len(xs))
				for i, j := range r.Perm(len(xs)) {
					out[i] = xs[j]
				}
				return out
			}
			randKey := func() []string {
				x := r.Intn(10)
				switch {
				case x < 5 && len(cur) >= 2:
					return perm(cur)
				case x < 8:
					n := r.Range(1, min(3, len(tb.Cols)))
					return perm(tb.Cols)[:n]
				default:
					return append([]string(nil), cur...)
				}
			}
			ns := r.Range(2, 6)
			for i := 0; i < ns; i++ {
				st := BFStep{GapS: Pick(r, []int{1, 1, 2, 60, 3600}), RunGapS: Pick(r, []int{0, 0, 1, 5, 3600})}
				switch x := r.Intn(10); {
				case x < 4:
					ne := r.Range(1, 3)
					for e := 0; e < ne; e++ {
						if len(tb.Rows) > 0 && r.Chance(0.7) {
							st.Edits = append(st.Edits, Edit{Op: "setcell", Row: r.Intn(len(tb.Rows)), Col: r.Intn(len(tb.Cols)), Val: genCell(r, &o)})
						} else {
							cells := make([]string, len(tb.Cols))
							for j := range cells {
								cells[j] = fmt.Sprintf("n%d", r.Intn(1000))
							}
							st.Edits = append(st.Edits, Edit{Op: "addrow", Cells: cells})
						}
					}
				case x < 5:
					st.Touch = true
				}
				if r.Chance(0.35) {
					st.PK = randKey()
				}
				if r.Chance(0.2) {
					st.SetPK = true
					cur = randKey()
					st.PK = nil
					// recorded in the plan as the new configured key
					st.PK = append([]string(nil), cur...)
				}
				st.NoCache = r.Chance(0.1)
				st.All = st.PK == nil && r.Chance(0.2) || st.SetPK && r.Chance(0.3)
				st.Diff = r.Chance(0.25)
				if !st.SetPK && r.Chance(0.12) {
					st.Explicit, st.All = true, false
					if r.Chance(0.6) {
						st.PK = nil
					}
				}
				p.Steps = append(p.Steps, st)
			}
			return p
		},
		Exec: execC01BF,
	})
}

func bfDelim(s string) (rune, error) { return delimRune(s) }

func (n *Node) writeFileAt(name string, data []byte, at time.Time) string {
	p := n.WriteFile(name, data)
	os.Chtimes(p, at, at)
	return p
}

func execC01BF(t *testing.T, raw json.RawMessage, res *Result) {
	var p C01BFPlan
	if err := json.Unmarshal(raw, &p); err != nil {
		res.Invalid("plan: %v", err)
		return
	}
	if err := p.Table.Validate(); err != nil || len(p.Steps) > 12 {
		res.Invalid("plan: %v", err)
		return
	}
	delim, err := bfDelim(p.Delim)
	if err != nil {
		res.Invalid("%v", err)
		return
	}
	cols, rows := p.Table.Materialise()
	for _, c := range cols {
		if strings.ContainsAny(c, ",\"\n") || strings.ContainsRune(c, delim) {
			res.Skip("column name not passable through -p")
			return
		}
	}
	validKey := func(k []string) bool {
		seen := map[string]bool{}
		for _, c := range k {
			if _, err := pkIndices(cols, []string{c}); err != nil || seen[c] {
				return false
			}
			seen[c] = true
		}
		return true
	}
	w := &World{}
	n, err := NewNode(t, "L", w)
	if err != nil {
		res.Invalid("node: %v", err)
		return
	}
	defer n.Close()
	n.Clock = 24 * time.Hour
	now := func() time.Time { return bubbleEpoch.Add(n.Clock) }
	delimArgs := func() []string {
		if p.Delim != "" && p.Delim != "," {
			return []string{"--delimiter", p.Delim}
		}
		return nil
	}

	confKey := append([]string(nil), p.Table.PK...)
	for i := range confKey {
		confKey[i] = ToBytes(confKey[i])
	}
	text := CSVText(cols, rows, delim)
	file := n.writeFileAt("data.csv", text, now())
	n.Clock += time.Second
	args := []string{"commit", "main", file, "initial", "--set-file", "--set-primary-key"}
	if len(confKey) > 0 {
		args = append(args, "-p", strings.Join(confKey, ","))
	}
	args = append(args, delimArgs()...)
	cr := n.Run(t, args...)
	if bubbleProblems(res, cr.Out, "wrgl commit --set-file") {
		return
	}
	if cr.Err != nil {
		res.Violate("commit-error", "wrgl %v failed: %v\n%s", args, cr.Err, cr.Stdout)
		return
	}

	// check compares the branch head's table with the model of (cols, rows) under key.
	check := func(step string, key []string) (tblSum []byte, ok bool) {
		pcols, prows, err := ParseCSV(CSVText(cols, rows, delim), delim)
		if err != nil {
			res.Invalid("csv: %v", err)
			return nil, false
		}
		pk, err := pkIndices(pcols, key)
		if err != nil {
			res.Invalid("%v", err)
			return nil, false
		}
		exp := IngestModel(pcols, prows, pk)
		refs, _ := n.Refs()
		head, okh := refs["heads/main"]
		if !okh {
			res.Violate("ref-missing", "%s: heads/main does not exist", step)
			return nil, false
		}
		com, err := objects.GetCommit(n.Objs, head)
		if err != nil {
			res.Violate("commit-missing", "%s: %v", step, err)
			return nil, false
		}
		tbl, trows, err := ReadTableRaw(n.Objs, com.Table)
		if err != nil {
			res.Violate("table-unreadable", "%s: %v", step, err)
			return nil, false
		}
		if len(pcols) == 1 {
			return com.Table, true // single-column empty-cell representation gap (see C01cli)
		}
		if c, d := exp.Compare(tbl.Columns, tbl.PK, trows); c != "" {
			res.Violate("stale-"+c, "%s: branch table is not the file's content under key %q: %s", step, key, d)
			return nil, false
		}
		er := n.Run(t, append([]string{"export", "main"}, delimArgs()...)...)
		if bubbleProblems(res, er.Out, "wrgl export") {
			return nil, false
		}
		if er.Err != nil {
			res.Violate("export-error", "%s: wrgl export failed: %v", step, er.Err)
			return nil, false
		}
		ecols, erows, err := ParseCSV([]byte(er.Stdout), delim)
		if err != nil {
			res.Violate("export-unparsable", "%s: export output is not well-formed CSV under delimiter %q: %v", step, p.Delim, err)
			return nil, false
		}
		if c, d := exp.Compare(ecols, tbl.PK, erows); c != "" {
			res.Violate("export-"+c, "%s: %s", step, d)
			return nil, false
		}
		return com.Table, true
	}
	if _, ok := check("initial commit", confKey); !ok {
		return
	}

	unchangedRuns, keyChanges := 0, 0
	// signature of the logical content last committed (columns, key, rows by key): committing the
	// same content again must be detected as "no change" (the branch does not move)
	sigOf := func(key []string) (string, bool) {
		pcols, prows, err := ParseCSV(CSVText(cols, rows, delim), delim)
		if err != nil {
			return "", false
		}
		pk, err := pkIndices(pcols, key)
		if err != nil {
			return "", false
		}
		exp := IngestModel(pcols, prows, pk)
		if !exp.Unique || len(pcols) == 1 {
			return "", false
		}
		var b strings.Builder
		fmt.Fprintf(&b, "%q|%q|", pcols, key)
		for _, k := range exp.Keys {
			fmt.Fprintf(&b, "%q;", exp.ByKey[keyStr(k)][0])
		}
		return b.String(), true
	}
	lastSig, lastSigOK := sigOf(confKey)
	for i, st := range p.Steps {
		step := fmt.Sprintf("step %d", i)
		if st.GapS < 0 || st.GapS > 1e6 || st.RunGapS < 0 || st.RunGapS > 1e6 {
			res.Invalid("gap")
			return
		}
		// a content change always gets a strictly later mtime than any earlier
		// commit (mtime granularity assumption, DESIGN 16.5)
		if len(st.Edits) > 0 || st.Touch {
			n.Clock += time.Duration(max(st.GapS, 1)) * time.Second
			if len(st.Edits) > 0 {
				var pkNames []string
				nc, _, nr := ApplyEdits(cols, pkNames, rows, st.Edits)
				// keep keys unique under the configured key so "which duplicate survives" never matters
				cols, rows = nc, DedupeByKey(nc, confKey, nr)
			}
			n.writeFileAt("data.csv", CSVText(cols, rows, delim), now())
		} else {
			unchangedRuns++
		}
		n.Clock += time.Duration(st.RunGapS) * time.Second
		key := confKey
		var over []string
		for _, c := range st.PK {
			over = append(over, ToBytes(c))
		}
		if len(over) > 0 && !validKey(over) {
			res.Invalid("step %d: bad key %q", i, over)
			return
		}
		if st.SetPK && len(over) > 0 {
			r := n.Run(t, "config", "set", "branch.main.primaryKey", strings.Join(over, ","))
			if bubbleProblems(res, r.Out, "wrgl config set") {
				return
			}
			if r.Err != nil {
				res.Invalid("config set primaryKey: %v %s", r.Err, r.Stdout)
				return
			}
			if !rowsEqual(confKey, over) {
				keyChanges++
			}
			confKey = over
			key = confKey
			over = nil
		}
		if len(over) > 0 && !st.All {
			if !rowsEqual(key, over) {
				keyChanges++
			}
			key = over
		}
		if st.Diff {
			dr := n.Run(t, "diff", "main", "--branch-file", "--no-gui")
			if bubbleProblems(res, dr.Out, "wrgl diff main") {
				return
			}
			n.Clock += time.Second
		}
		var args []string
		if st.Explicit {
			if st.All || st.SetPK {
				res.Invalid("explicit step")
				return
			}
			key = over // nil without -p: a keyless table
			args = []string{"commit", "main", file, fmt.Sprintf("m%d", i)}
			if len(over) > 0 {
				args = append(args, "-p", strings.Join(over, ","))
			}
			args = append(args, delimArgs()...)
			res.probe("explicit_file_commit", 1)
			if len(over) == 0 && len(confKey) > 0 {
				res.probe("explicit_file_commit_without_p_on_keyed_branch", 1)
			}
		} else if st.All {
			args = []string{"commit", "--all", fmt.Sprintf("m%d", i)}
		} else {
			args = []string{"commit", "main", fmt.Sprintf("m%d", i)}
			if len(over) > 0 {
				args = append(args, "-p", strings.Join(over, ","))
			}
		}
		if st.NoCache {
			args = append(args, "--no-cache")
		}
		headBefore := func() []byte { r, _ := n.Refs(); return r["heads/main"] }()
		cr := n.Run(t, args...)
		if bubbleProblems(res, cr.Out, "wrgl "+strings.Join(args, " ")) {
			return
		}
		if cr.Err != nil {
			res.Violate("commit-error", "%s: wrgl %v failed: %v\n%s", step, args, cr.Err, cr.Stdout)
			return
		}
		sig, sigOK := sigOf(key)
		// (the explicit-file form always makes a commit; only the branch-file forms skip unchanged content)
		if sigOK && lastSigOK && sig == lastSig && !st.Explicit {
			if r, _ := n.Refs(); !bytes.Equal(r["heads/main"], headBefore) {
				res.Violate("unchanged-data-recommitted", "%s (wrgl %s): columns, key and rows are what the branch already holds, yet a new commit was made: %s", step, strings.Join(args, " "), cr.Stdout)
				return
			}
			res.probe("no_change_detected", 1)
		}
		lastSig, lastSigOK = sig, sigOK
		n.Clock += time.Second
		if _, ok := check(fmt.Sprintf("%s (wrgl %s)", step, strings.Join(args, " ")), key); !ok {
			return
		}
	}
	res.probe("unchanged_runs", unchangedRuns)
	res.probe("key_changes", keyChanges)
	if delim >= 0x80 {
		res.probe("multibyte_delimiter", 1)
	}
	res.Nontrivial = len(p.Steps) >= 3 && unchangedRuns >= 1 && keyChanges >= 1
}
