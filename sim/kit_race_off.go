//go:build !race

package sim

const RaceEnabled = false

func runtime_raceErrors() int { return 0 }

func raceDisable() {}
func raceEnable()  {}
