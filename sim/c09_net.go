package sim

// C09 / C10: multi-node simulation. Nodes L and L2 (clients) and R (remote,
// served by refserver over simnet). Every operation is one in-process CLI
// process in its own bubble. C09 checks completeness after fetch/push (and
// under network faults), C10 monitors every ref transition.

import (
	"bytes"
	"encoding/json"
	"fmt"
	"github.com/go-logr/logr"
	"github.com/wrgl/wrgl/pkg/ingest"
	"github.com/wrgl/wrgl/pkg/sorter"
	"io"
	"net/http"
	"os"
	"path/filepath"
	"strings"
	"testing"
	"time"

	"github.com/wrgl/wrgl/pkg/objects"
	"github.com/wrgl/wrgl/pkg/ref"
)

type NetOp struct {
	Node       string    `json:"node"` // L | L2 | R
	Op         string    `json:"op"`   // commit | fetch | push | pull | merge | branch (create BRANCH at remote-tracking ref Other) | rtag | leftover | diamond (uneven merge built on the node) | pullall (pull --all) | pushall (push --all)
	Branch     string    `json:"branch,omitempty"`
	Variant    int       `json:"variant,omitempty"`
	Force      bool      `json:"force,omitempty"`
	Plus       bool      `json:"plus,omitempty"` // per-refspec '+'
	Depth      int       `json:"depth,omitempty"`
	FF         string    `json:"ff,omitempty"`   // "", "ff", "no-ff", "ff-only"
	Skew       int       `json:"skew,omitempty"` // hours added to the node clock before the op (may be negative)
	Other      string    `json:"other,omitempty"`
	Specs      []NetSpec `json:"specs,omitempty"`       // fetch / push: explicit refspecs
	Mirror     bool      `json:"mirror,omitempty"`      // push --mirror
	Form       string    `json:"form,omitempty"`        // merge: how BRANCH is spelled: "", heads, refs, short (last path segment), peel (B^), tilde0 (B~0)
	SQLFail    int       `json:"sql_fail,omitempty"`    // the n-th SQL statement issued during the operation (any node's ref store) fails
	DstForm    string    `json:"dst_form,omitempty"`    // push (single-branch form): how the destination is spelled: "" (refs/heads/B), short (B), heads (heads/B), nodst (no destination), lastseg (last path segment of B)
	Upstream   bool      `json:"upstream,omitempty"`    // push / pull: --set-upstream (makes the branch eligible for pullall / pushall)
	ReqFault   *NetFault `json:"req_fault,omitempty"`   // a network fault addressed relative to this operation: its At-th request
	StoreFault *Fault    `json:"store_fault,omitempty"` // an object-store operation fails during the operation ...
	FaultOn    string    `json:"fault_on,omitempty"`    // ... on the node running it ("", "self") or on the remote ("R")
}

type NetSpec struct {
	Branch string `json:"branch,omitempty"`
	Tags   bool   `json:"tags,omitempty"` // fetch: refs/tags/*:refs/tags/*
	Plus   bool   `json:"plus,omitempty"`
	Delete bool   `json:"delete,omitempty"` // push: :refs/heads/<branch>
	Tag    string `json:"tag,omitempty"`    // push: refs/tags/<tag>:refs/tags/<tag>
	ToTag  string `json:"to_tag,omitempty"` // fetch: refs/heads/<branch>:refs/tags/<to_tag> (a branch of the remote kept as a local tag)
	DstNS  string `json:"dst_ns,omitempty"` // fetch: destination namespace other than remotes/origin: "heads" (refs/heads/<b>), "backup" (refs/remotes/backup/<b>), "mirror" (refs/mirror/<b>)
}

type NetPlan struct {
	Base     SynthSpec   `json:"base"`
	Variants [][]Edit    `json:"variants"`
	Ops      []NetOp     `json:"ops"`
	Knobs    ServerKnobs `json:"knobs"`
	PushPack uint64      `json:"push_pack"` // client pack.maxFileSize
	Cuts     []int       `json:"cuts,omitempty"`
	EOFLast  bool        `json:"eof_with_last,omitempty"`
	Faults   []NetFault  `json:"faults,omitempty"`
}

var netForms = []string{"", "", "", "heads", "refs", "short", "peel", "tilde0"}

var netBranches = []string{"main", "dev", "rel", "team/qa"}

func genNetPlan(r *Rand, tier string, focus string, faults bool) NetPlan {
	p := NetPlan{}
	p.Base = SynthSpec{N: Pick(r, []int{2, 5, 20, 255, 256, 300}), NCols: r.Range(2, 3), Seed: r.Uint64()}
	cols, pk, _ := p.Base.Build()
	for v := 0; v < 5; v++ {
		p.Variants = append(p.Variants, genRowEdits(r.Sub(fmt.Sprintf("v%d", v)), cols, pk, p.Base.N, 3))
	}
	p.Knobs = ServerKnobs{TableBatch: Pick(r, []int{0, 1, 2, 100}), MaxPackfileSize: Pick(r, []uint64{0, 0, 1, 64, 1024, 8192}), DenyNonFF: false}
	p.PushPack = Pick(r, []uint64{0, 0, 1, 64, 1024, 8192})
	switch r.Intn(4) {
	case 0:
	case 1:
		p.Cuts = []int{1}
	default:
		for k := r.Range(1, 5); k > 0; k-- {
			p.Cuts = append(p.Cuts, Pick(r, []int{1, 2, 3, 7, 8, 9, 64, 1000}))
		}
	}
	p.EOFLast = r.Chance(0.3)
	n := r.Range(4, 14)
	// start with some history on R and a first sync so that later ops are interesting
	p.Ops = append(p.Ops, NetOp{Node: "R", Op: "commit", Branch: "main", Variant: 0})
	if r.Chance(0.7) {
		p.Ops = append(p.Ops, NetOp{Node: "R", Op: "commit", Branch: "main", Variant: 1})
	}
	p.Ops = append(p.Ops, NetOp{Node: "L", Op: "fetch"})
	for i := 0; i < n; i++ {
		if focus == "C10" && r.Chance(0.2) {
			// a true fast-forward: L's branch is brought level with the remote, the remote
			// moves on, L fetches and merges the remote-tracking ref, spelling BRANCH in any form
			b := Pick(r, netBranches)
			p.Ops = append(p.Ops, NetOp{Node: "R", Op: "commit", Branch: b, Variant: r.Intn(6)},
				NetOp{Node: "L", Op: "pull", Branch: b, FF: "ff"},
				NetOp{Node: "R", Op: "commit", Branch: b, Variant: r.Intn(6)})
			if r.Chance(0.4) {
				p.Ops = append(p.Ops, NetOp{Node: "R", Op: "commit", Branch: b, Variant: r.Intn(6)})
			}
			p.Ops = append(p.Ops, NetOp{Node: "L", Op: "fetch"},
				NetOp{Node: "L", Op: "merge", Branch: b, Other: "origin/" + b, FF: Pick(r, []string{"", "ff", "ff-only"}), Form: Pick(r, netForms)})
			continue
		}
		if focus == "C10" && r.Chance(0.07) {
			// a branch whose own name starts with "heads/" (ref heads/heads/rel) next to the branch rel: both start at
			// the remote's main, both get a commit of their own, the remote moves on, and the remote-tracking ref is
			// merged into heads/rel with a merge commit - which must land on heads/rel and leave rel alone
			p.Ops = append(p.Ops, NetOp{Node: "L", Op: "fetch"},
				NetOp{Node: "L", Op: "branch", Branch: "heads/rel", Other: "origin/main"},
				NetOp{Node: "L", Op: "branch", Branch: "rel", Other: "origin/main"},
				NetOp{Node: "L", Op: "commit", Branch: "heads/rel", Variant: 1 + r.Intn(5)},
				NetOp{Node: "L", Op: "commit", Branch: "rel", Variant: 1 + r.Intn(5)},
				NetOp{Node: "R", Op: "commit", Branch: "main", Variant: r.Intn(6)},
				NetOp{Node: "L", Op: "fetch"},
				NetOp{Node: "L", Op: "merge", Branch: "heads/rel", Other: "origin/main", FF: Pick(r, []string{"", "no-ff", "no-ff"}), Form: Pick(r, []string{"heads", "refs"})})
			continue
		}
		if focus == "C10" && r.Chance(0.08) {
			// two remote branches end up on the same tip; one of the client's tracking refs is behind it,
			// the other has diverged from it; one non-forced fetch covers both
			bs := r.Perm(len(netBranches))
			a, b := netBranches[bs[0]], netBranches[bs[1]]
			cl := Pick(r, []string{"L", "L2"})
			p.Ops = append(p.Ops, NetOp{Node: "R", Op: "commit", Branch: a, Variant: r.Intn(6)}, NetOp{Node: "R", Op: "commit", Branch: b, Variant: r.Intn(6)},
				NetOp{Node: cl, Op: "fetch", Specs: []NetSpec{{Branch: a, Plus: true}, {Branch: b, Plus: true}}},
				NetOp{Node: "R", Op: "commit", Branch: a, Variant: r.Intn(6)},
				NetOp{Node: "R", Op: "rcopy", Branch: b, Other: a},
				NetOp{Node: cl, Op: "fetch", Specs: []NetSpec{{Branch: a}, {Branch: b}}})
			continue
		}
		if focus == "C10" && r.Chance(0.08) {
			// a fetch whose destination lies outside remotes/origin and tags: a local branch, another
			// remote's namespace, a mirror namespace; the destination exists and has diverged
			b := Pick(r, netBranches)
			ns := Pick(r, []string{"heads", "backup", "mirror"})
			cl := Pick(r, []string{"L", "L2"})
			p.Ops = append(p.Ops, NetOp{Node: "R", Op: "commit", Branch: b, Variant: r.Intn(6)},
				NetOp{Node: cl, Op: "fetch", Specs: []NetSpec{{Branch: b, DstNS: ns}}})
			if ns == "heads" {
				p.Ops = append(p.Ops, NetOp{Node: cl, Op: "commit", Branch: b, Variant: r.Intn(6)}, NetOp{Node: "R", Op: "commit", Branch: b, Variant: r.Intn(6)})
			} else {
				other := netBranches[(indexOf(netBranches, b)+1)%len(netBranches)]
				p.Ops = append(p.Ops, NetOp{Node: "R", Op: "commit", Branch: other, Variant: r.Intn(6)}, NetOp{Node: "R", Op: "rcopy", Branch: b, Other: other})
			}
			p.Ops = append(p.Ops, NetOp{Node: cl, Op: "fetch", Specs: []NetSpec{{Branch: b, DstNS: ns, Plus: r.Chance(0.2)}}})
			continue
		}
		if focus == "C10" && r.Chance(0.1) {
			// a remote branch kept as a local tag: once the tag exists, a later non-forced fetch of the
			// moved branch onto it must be rejected (the tag guard looks at the destination)
			b := Pick(r, netBranches)
			tag := Pick(r, []string{"t1", "t2"})
			cl := Pick(r, []string{"L", "L2"})
			p.Ops = append(p.Ops, NetOp{Node: "R", Op: "commit", Branch: b, Variant: r.Intn(6)},
				NetOp{Node: cl, Op: "fetch", Specs: []NetSpec{{Branch: b, ToTag: tag}}},
				NetOp{Node: "R", Op: "commit", Branch: b, Variant: r.Intn(6)},
				NetOp{Node: cl, Op: "fetch", Specs: []NetSpec{{Branch: b, ToTag: tag, Plus: r.Chance(0.2)}, {Branch: b}}})
			continue
		}
		if focus == "C10" && r.Chance(0.5) {
			// diverge a branch on both sides, then try to move it without / with force
			b := Pick(r, netBranches)
			p.Ops = append(p.Ops, NetOp{Node: "L", Op: "commit", Branch: b, Variant: r.Intn(6), Skew: Pick(r, []int{0, 0, -50, 200})})
			p.Ops = append(p.Ops, NetOp{Node: Pick(r, []string{"R", "R", "L2"}), Op: "commit", Branch: b, Variant: r.Intn(6)})
			if p.Ops[len(p.Ops)-1].Node == "L2" {
				p.Ops = append(p.Ops, NetOp{Node: "L2", Op: "push", Branch: b, Force: r.Chance(0.5)})
			}
			if r.Chance(0.3) {
				p.Ops = append(p.Ops, NetOp{Node: "R", Op: "rtag", Branch: b, Other: Pick(r, []string{"v1", "v2"})})
			}
			switch r.Intn(4) {
			case 0:
				p.Ops = append(p.Ops, NetOp{Node: "L", Op: "push", Branch: b, Force: r.Chance(0.3), Plus: r.Chance(0.2)})
			case 1:
				p.Ops = append(p.Ops, NetOp{Node: "L", Op: "pull", Branch: b, FF: Pick(r, []string{"", "ff-only", "no-ff"})})
			case 2:
				p.Ops = append(p.Ops, NetOp{Node: "L", Op: "fetch", Force: r.Chance(0.2), Specs: genSpecs(r)})
				p.Ops = append(p.Ops, NetOp{Node: "L", Op: "merge", Branch: b, Other: "origin/" + b, FF: Pick(r, []string{"", "ff-only", "no-ff"}), Form: Pick(r, netForms)})
			default:
				p.Ops = append(p.Ops, NetOp{Node: "L", Op: "fetch", Force: r.Chance(0.3)})
				p.Ops = append(p.Ops, NetOp{Node: "L", Op: "push", Branch: b})
			}
			continue
		}
		if focus == "C09" && !faults && i == 0 && r.Chance(0.025) {
			// more tables in one push than one table-negotiation round trip offers (256)
			b := Pick(r, netBranches)
			cl := Pick(r, []string{"L", "L2"})
			p.Ops = append(p.Ops, NetOp{Node: cl, Op: "bigchain", Branch: b, Variant: Pick(r, []int{257, 300, 520})}, NetOp{Node: cl, Op: "push", Branch: b, Force: true})
			continue
		}
		if focus == "C09" && r.Chance(0.06) {
			// a merge with arms of different lengths on the remote, fetched at a depth limit: what is "within depth" is
			// decided by the shortest path from the tip, whichever parent the merge lists first
			b := Pick(r, netBranches)
			p.Ops = append(p.Ops, NetOp{Node: "R", Op: "diamond", Branch: b, Variant: Pick(r, []int{12, 13, 21, 31, 14, 41, 23, 32, 11, 22}), Force: r.Chance(0.5)},
				NetOp{Node: Pick(r, []string{"L", "L2"}), Op: "fetch", Depth: r.Range(2, 4), Specs: []NetSpec{{Branch: b, Plus: true}}})
			continue
		}
		if focus == "C09" && r.Chance(0.08) {
			// a tag that moves on the remote to a commit no fetched branch reaches, fetched by a tags-only forced fetch
			b := Pick(r, netBranches)
			tag := Pick(r, []string{"v1", "v2"})
			cl := Pick(r, []string{"L", "L2"})
			p.Ops = append(p.Ops, NetOp{Node: "R", Op: "commit", Branch: b, Variant: r.Intn(6)}, NetOp{Node: "R", Op: "rtag", Branch: b, Other: tag},
				NetOp{Node: cl, Op: "fetch", Specs: []NetSpec{{Tags: true}}},
				NetOp{Node: "R", Op: "commit", Branch: b, Variant: r.Intn(6)}, NetOp{Node: "R", Op: "rtag", Branch: b, Other: tag},
				NetOp{Node: cl, Op: "fetch", Force: r.Chance(0.7), Specs: []NetSpec{{Tags: true, Plus: r.Chance(0.3)}}})
			continue
		}
		if focus == "C09" && r.Chance(0.12) {
			// a tag on an older commit of a branch, fetched together with the branch at a depth limit
			b := Pick(r, netBranches)
			p.Ops = append(p.Ops, NetOp{Node: "R", Op: "commit", Branch: b, Variant: r.Intn(6)}, NetOp{Node: "R", Op: "rtag", Branch: b, Other: Pick(r, []string{"v1", "v2"})})
			for k := r.Range(1, 3); k > 0; k-- {
				p.Ops = append(p.Ops, NetOp{Node: "R", Op: "commit", Branch: b, Variant: r.Intn(6)})
			}
			p.Ops = append(p.Ops, NetOp{Node: Pick(r, []string{"L", "L2"}), Op: "fetch", Depth: r.Range(1, 2), Specs: []NetSpec{{Branch: b, Plus: true}, {Tags: true}}})
			continue
		}
		node := Pick(r, []string{"L", "L", "L", "L2", "R"})
		b := Pick(r, netBranches)
		skew := 0
		if r.Chance(0.3) {
			skew = Pick(r, []int{-100, -30, -2, 50, 1000})
		}
		var op NetOp
		x := r.Intn(100)
		switch {
		case node == "R":
			if x < 85 {
				op = NetOp{Node: "R", Op: "commit", Branch: b, Variant: r.Intn(6)}
			} else {
				op = NetOp{Node: "R", Op: "rtag", Branch: b, Other: Pick(r, []string{"v1", "v2"})}
			}
		case x < 30:
			op = NetOp{Node: node, Op: "commit", Branch: b, Variant: r.Intn(6)}
		case x < 55:
			op = NetOp{Node: node, Op: "fetch", Force: r.Chance(0.15), Depth: Pick(r, []int{0, 0, 0, 1, 2})}
			if r.Chance(0.4) {
				op.Specs = genSpecs(r)
			}
			if focus == "C09" && r.Chance(0.25) {
				// what an earlier, interrupted transfer of the same objects leaves behind
				p.Ops = append(p.Ops, NetOp{Node: node, Op: "leftover", Variant: r.Range(1, 7)})
			}
		case x < 80:
			op = NetOp{Node: node, Op: "push", Branch: b, Force: r.Chance(0.15), Plus: r.Chance(0.1), Upstream: r.Chance(0.3)}
			if rd := r.Sub(fmt.Sprintf("dstform-%d", len(p.Ops))); rd.Chance(0.3) {
				// a sub-stream: the plans of earlier versions stay what they were
				op.DstForm = Pick(rd, []string{"short", "heads", "nodst", "lastseg"})
			}
			switch r.Intn(6) {
			case 0:
				op.Mirror = true
			case 1, 2:
				for _, bb := range netBranches {
					if r.Chance(0.6) {
						op.Specs = append(op.Specs, NetSpec{Branch: bb, Plus: r.Chance(0.25), Delete: r.Chance(0.12)})
					}
				}
				if r.Chance(0.4) {
					op.Specs = append(op.Specs, NetSpec{Tag: Pick(r, []string{"v1", "v2"}), Plus: r.Chance(0.2)})
				}
			}
		case x < 92:
			op = NetOp{Node: node, Op: "pull", Branch: b, FF: Pick(r, []string{"", "ff", "no-ff", "ff-only"}), Depth: Pick(r, []int{0, 0, 1}), Upstream: r.Chance(0.4)}
			if r.Chance(0.15) {
				op = NetOp{Node: node, Op: Pick(r, []string{"pullall", "pushall"})}
			}
		default:
			op = NetOp{Node: node, Op: "merge", Branch: b, Other: "origin/" + Pick(r, netBranches), FF: Pick(r, []string{"", "no-ff", "ff-only"}), Form: Pick(r, netForms)}
		}
		op.Skew = skew
		p.Ops = append(p.Ops, op)
	}
	if faults {
		appendAllBlock(r, &p, []string{"404", "404", "500", "503", "lose-response", "stream-error"})
	}
	if focus == "C10" || faults {
		for i := range p.Ops {
			o := &p.Ops[i]
			if o.Node != "R" && (o.Op == "fetch" || o.Op == "pull" || o.Op == "merge" || o.Op == "push") && i > 3 && r.Chance(0.12) {
				o.SQLFail = r.Range(1, 40)
			}
		}
	}
	if faults {
		for i := range p.Ops {
			o := &p.Ops[i]
			if o.Node != "R" && (o.Op == "fetch" || o.Op == "pull" || o.Op == "push") && i > 2 && r.Chance(0.12) {
				o.StoreFault = &Fault{Op: Pick(r, []string{"get", "exist", "exist", "read", "any"}), Prefix: Pick(r, []string{"tbl/", "tbl/", "blk/", "com/", ""}), Nth: r.Range(1, 25)}
				o.FaultOn = Pick(r, []string{"self", "R"})
			}
		}
		nf := r.Range(1, 4)
		for i := 0; i < nf; i++ {
			p.Faults = append(p.Faults, NetFault{At: r.Range(2, 40), Kind: Pick(r, []string{"lose-request", "lose-response", "500", "503", "404", "stream-error", "restart", "delay"}), Arg: r.Range(1, 900)})
		}
	}
	return p
}

// appendAllBlock: a branch with an upstream, then `pull --all` / `push --all` whose k-th request is answered badly.
func appendAllBlock(r *Rand, p *NetPlan, kinds []string) {
	b := Pick(r, netBranches)
	cl := Pick(r, []string{"L", "L2"})
	p.Ops = append(p.Ops, NetOp{Node: "R", Op: "commit", Branch: b, Variant: r.Intn(6)},
		NetOp{Node: cl, Op: "pull", Branch: b, Upstream: true},
		NetOp{Node: "R", Op: "commit", Branch: b, Variant: r.Intn(6)},
		NetOp{Node: cl, Op: Pick(r, []string{"pullall", "pullall", "pushall"}), ReqFault: &NetFault{At: r.Range(1, 4), Kind: Pick(r, kinds), Arg: r.Range(0, 3000)}})
}

func dstOfSpec(sp NetSpec) string {
	switch sp.DstNS {
	case "heads":
		return "heads/" + sp.Branch
	case "backup":
		return "remotes/backup/" + sp.Branch
	case "mirror":
		return "mirror/" + sp.Branch
	}
	return "remotes/origin/" + sp.Branch
}

func genSpecs(r *Rand) []NetSpec {
	var sp []NetSpec
	for _, b := range netBranches {
		if r.Chance(0.8) {
			sp = append(sp, NetSpec{Branch: b, Plus: r.Chance(0.4)})
		}
	}
	if r.Chance(0.5) {
		sp = append(sp, NetSpec{Tags: true, Plus: r.Chance(0.2)})
	}
	if r.Chance(0.25) {
		sp = append(sp, NetSpec{Branch: Pick(r, netBranches), ToTag: Pick(r, []string{"t1", "t2"}), Plus: r.Chance(0.2)})
	}
	if len(sp) == 0 {
		sp = append(sp, NetSpec{Branch: "main"})
	}
	return sp
}

func init() {
	Register(&Profile{
		ID: "C09", Prop: "C09",
		Rule: "multi-node run: clients L, L2 and remote R (reference server over simnet); 6-17 operations (commit on any node with per-node clock skew, fetch [--depth --force], push [--force / +refspec], pull [--ff modes], merge of a remote-tracking ref, tags appearing on R) x server knobs (table negotiation batch, max packfile size) x client pack size x response chunking; fault-free; after every successful fetch/push: closure, tables within depth, byte-identical objects, I1-I4 on both sides, immediate repeat transfers nothing; non-trivial = >=1 fetch and >=1 push that transferred objects; distinct by plan hash",
		Gen: func(seed uint64, tier string) any {
			p := genNetPlan(NewRand(seed), tier, "C09", false)
			if seed%32 == 0 {
				// trigger plan of known finding C09-shallow-not-completed
				p.Ops = []NetOp{{Node: "R", Op: "commit", Branch: "main", Variant: 0}, {Node: "R", Op: "commit", Branch: "main", Variant: 1}, {Node: "R", Op: "commit", Branch: "main", Variant: 2},
					{Node: "L", Op: "fetch", Depth: 1}, {Node: "R", Op: "commit", Branch: "main", Variant: 3}, {Node: "L", Op: "fetch"}}
			}
			return p
		},
		Exec: func(t *testing.T, raw json.RawMessage, res *Result) { execNet(t, raw, res, "C09") },
	})
	Register(&Profile{
		ID: "C09f", Prop: "C09",
		Rule: "as C09 with 1-4 network faults (request lost, response lost => duplicate on retry, 500/503 => push back-off on the fake clock, stream error mid-packfile => Fetch retry loop, server restart = session loss, delay): an operation may fail, success implies the postcondition, a failed operation leaves I1-I4 intact on both sides, and once faults stop one more attempt succeeds; non-trivial = >=1 fault fired during a transfer; distinct by plan hash",
		Gen:  func(seed uint64, tier string) any { return genNetPlan(NewRand(seed), tier, "C09", true) },
		Exec: func(t *testing.T, raw json.RawMessage, res *Result) { execNet(t, raw, res, "C09") },
	})
	Register(&Profile{
		ID: "C17w", Prop: "C17",
		Rule: "wire corruption: the multi-node run of C09 with 1-4 replies of the remote truncated or bit-flipped in simnet (JSON, packfiles, error bodies) during fetch / pull / push; the client must return (error or success) without panic or hang, success implies the C09 postcondition, a rejected reply leaves I1-I4 intact and no ref pointing at incomplete history; non-trivial = >=1 corruption fired; distinct by plan hash",
		Gen: func(seed uint64, tier string) any {
			r := NewRand(seed)
			p := genNetPlan(r, tier, "C09", false)
			nf := r.Range(1, 4)
			for i := 0; i < nf; i++ {
				p.Faults = append(p.Faults, NetFault{At: r.Range(1, 40), Kind: Pick(r, []string{"truncate", "flip", "flip", "404", "hostile-json"}), Arg: r.Range(0, 5000)})
			}
			if r.Chance(0.5) {
				appendAllBlock(r, &p, []string{"404", "404", "truncate", "flip"})
			}
			if r.Chance(0.35) {
				// a reply that is valid JSON but not what the API promises, during a negotiation that needs several round trips
				b := Pick(r, netBranches)
				p.Ops = append(p.Ops, NetOp{Node: "R", Op: "commit", Branch: b, Variant: r.Intn(6)},
					NetOp{Node: Pick(r, []string{"L", "L2"}), Op: Pick(r, []string{"fetch", "pull", "push"}), Branch: b, ReqFault: &NetFault{At: r.Range(1, 4), Kind: "hostile-json", Arg: r.Intn(1000)}})
			}
			if r.Chance(0.15) {
				// a remote that answers a fetch with well-formed but empty packfiles, for ever
				b := Pick(r, netBranches)
				p.Ops = append(p.Ops, NetOp{Node: "R", Op: "commit", Branch: b, Variant: r.Intn(6)},
					NetOp{Node: Pick(r, []string{"L", "L2"}), Op: Pick(r, []string{"fetch", "pull"}), Branch: b, ReqFault: &NetFault{At: r.Range(1, 3), Kind: "empty-packs"}})
			}
			return p
		},
		Exec: func(t *testing.T, raw json.RawMessage, res *Result) { execNet(t, raw, res, "C17") },
	})
	Register(&Profile{
		ID: "C10", Prop: "C10",
		Rule: "same multi-node runs, ref-transition monitor: every transition of every ref on the clients (recorded at the ref-store seam) by a non-forced operation must go to a descendant; existing tags never change without force; rejected updates are reported and leave the ref alone while other refs of the same command move; a fast-forward merge lands exactly on the other commit; every logged transition has a reflog entry with the true old/new; push requests never carry a non-fast-forward or tag-clobbering update without force; non-trivial = >=1 rejected or forced update or >=1 diverged pair; distinct by plan hash",
		Gen:  func(seed uint64, tier string) any { return genNetPlan(NewRand(seed), tier, "C10", false) },
		Exec: func(t *testing.T, raw json.RawMessage, res *Result) { execNet(t, raw, res, "C10") },
	})
}

// rawAncestors: ancestors-or-self of sum by walking raw commit objects.
func rawAncestors(objs RawReader, sum []byte) (map[string]bool, error) {
	seen := map[string]bool{}
	stack := [][]byte{sum}
	for len(stack) > 0 {
		s := stack[len(stack)-1]
		stack = stack[:len(stack)-1]
		if seen[string(s)] {
			continue
		}
		v, ok := objs.Raw("com/" + string(s))
		if !ok {
			return seen, fmt.Errorf("commit %x missing", s)
		}
		seen[string(s)] = true
		_, c, err := objects.ReadCommitFrom(bytes.NewReader(v))
		if err != nil {
			return seen, fmt.Errorf("commit %x: %v", s, err)
		}
		for _, p := range c.Parents {
			stack = append(stack, p)
		}
	}
	return seen, nil
}

func rawCommit(objs RawReader, sum []byte) *objects.Commit {
	v, ok := objs.Raw("com/" + string(sum))
	if !ok {
		return nil
	}
	_, c, err := objects.ReadCommitFrom(bytes.NewReader(v))
	if err != nil {
		return nil
	}
	return c
}

// checkHistoryComplete: every ancestor of tip exists in dst, tables within depth
// (all if 0) exist, are sound, and objects equal src's.
func checkHistoryComplete(dst, src *Store, tip []byte, depth int, shallowBefore map[string]bool) (class, detail string) {
	type item struct {
		sum []byte
		d   int
	}
	seen := map[string]int{}
	queue := []item{{tip, 0}}
	for len(queue) > 0 {
		it := queue[0]
		queue = queue[1:]
		if d, ok := seen[string(it.sum)]; ok && d <= it.d {
			continue
		}
		seen[string(it.sum)] = it.d
		cv, ok := dst.Raw("com/" + string(it.sum))
		if !ok {
			return "ancestor-missing", fmt.Sprintf("commit %x (distance %d from the updated ref) is missing on the receiving side", it.sum, it.d)
		}
		if src != nil {
			if sv, ok := src.Raw("com/" + string(it.sum)); ok && !bytes.Equal(sv, cv) {
				return "object-differs", fmt.Sprintf("commit %x differs between the two sides", it.sum)
			}
		}
		_, c, err := objects.ReadCommitFrom(bytes.NewReader(cv))
		if err != nil {
			return "commit-undecodable", fmt.Sprintf("commit %x: %v", it.sum, err)
		}
		if depth == 0 || it.d < depth {
			if _, ok := dst.Raw("tbl/" + string(c.Table)); !ok {
				if shallowBefore[string(it.sum)] {
					return "table-missing-previously-shallow", fmt.Sprintf("commit %x (distance %d, requested depth %d) was already present without its table (earlier depth-limited fetch) and the fetch did not complete it", it.sum, it.d, depth)
				}
				return "table-missing", fmt.Sprintf("table %x of commit %x (distance %d, requested depth %d) is missing on the receiving side", c.Table, it.sum, it.d, depth)
			}
			if cl, d := CheckTable(dst, c.Table); cl != "" {
				return "table-unsound:" + cl, d
			}
			if src != nil {
				if sv, ok := src.Raw("tbl/" + string(c.Table)); ok {
					dv, _ := dst.Raw("tbl/" + string(c.Table))
					if !bytes.Equal(sv, dv) {
						return "object-differs", fmt.Sprintf("table %x differs between the two sides", c.Table)
					}
				}
			}
		}
		for _, p := range c.Parents {
			queue = append(queue, item{p, it.d + 1})
		}
	}
	return "", ""
}

type netNode struct {
	*Node
	transSeen int
}

func execNet(t *testing.T, raw json.RawMessage, res *Result, focus string) {
	pfx := strings.ToLower(focus)
	c09 := focus == "C09" || focus == "C17"
	var p NetPlan
	if err := json.Unmarshal(raw, &p); err != nil {
		res.Invalid("plan: %v", err)
		return
	}
	if p.Base.N < 1 || p.Base.N > 2000 || p.Base.NCols < 2 || p.Base.NCols > 6 || len(p.Ops) > 120 || len(p.Variants) > 12 || len(p.Faults) > 16 || len(p.Cuts) > 64 {
		res.Invalid("plan out of range")
		return
	}
	cols, pk, rows := p.Base.Build()
	pkArg := strings.Join(pk, ",")
	w := &World{}
	nodes := map[string]*netNode{}
	defer func() {
		for _, n := range nodes {
			n.Close()
		}
	}()
	for _, name := range []string{"L", "L2", "R"} {
		n, err := NewNode(t, name, w)
		if err != nil {
			res.Invalid("node: %v", err)
			return
		}
		n.Objs.Monitor = MonitorC06
		if focus == "C17" {
			n.Objs.Monitor = MonitorLenient
		}
		nodes[name] = &netNode{Node: n}
	}
	R := nodes["R"]
	net := NewSimNet()
	net.Cuts, net.EOFLast = p.Cuts, p.EOFLast
	srv := NewRefServer(R.Objs, nil, p.Knobs)
	srv.OpenRS = func() (ref.Store, func(), error) {
		db, err := OpenRefDB(filepath.Join(R.WrglDir, "sqlite.db"))
		if err != nil {
			return nil, nil, err
		}
		return db, func() { db.Close() }, nil
	}
	net.AddServer("r.example.com", srv)
	prevTransport := http.DefaultTransport
	http.DefaultTransport = net
	defer func() { http.DefaultTransport = prevTransport }()
	os.Setenv("XDG_CONFIG_HOME", filepath.Join(nodes["L"].Root, "xdg"))

	for _, name := range []string{"L", "L2"} {
		n := nodes[name]
		r := n.Run(t, "remote", "add", "origin", "http://r.example.com")
		if r.Failed() {
			res.Invalid("remote add: %v %s", r.Err, r.Stdout)
			return
		}
		if p.PushPack > 0 {
			if r := n.Run(t, "config", "set", "pack.maxFileSize", fmt.Sprint(p.PushPack)); r.Failed() {
				res.Invalid("config set pack.maxFileSize: %v %s", r.Err, r.Stdout)
				return
			}
		}
	}
	variantFile := func(n *netNode, v int) string {
		var ed []Edit
		if v > 0 && v-1 < len(p.Variants) {
			ed = p.Variants[v-1]
		}
		for _, e := range ed {
			if e.Op != "setcell" && e.Op != "delrow" && e.Op != "addrow" {
				return ""
			}
		}
		_, _, rs := ApplyEdits(cols, pk, rows, ed)
		rs = DedupeByKey(cols, pk, rs)
		return n.WriteFile(fmt.Sprintf("v%d.csv", v), CSVText(cols, rs, ','))
	}
	net.Faults = p.Faults
	lastFaultAt := 0
	for _, f := range p.Faults {
		if f.At > lastFaultAt {
			lastFaultAt = f.At
		}
	}

	fetches, pushes, rejected, forced, diverged := 0, 0, 0, 0, 0
	checkBothSides := func(when string) bool {
		for _, name := range []string{"L", "L2", "R"} {
			n := nodes[name]
			refs, err := n.Refs()
			if err != nil {
				res.Invalid("refs: %v", err)
				return false
			}
			if c, d := CheckRepoInvariants(n.Objs.Snapshot(), refs); c != "" {
				// a branch pointing at a shallow commit is legitimate after --depth fetches + pull/merge; I4 is for commit/merge only
				if c == "I4-branch-without-table" {
					continue
				}
				res.Violate(pfx+"-"+c, "%s: node %s: %s", when, name, d)
				return false
			}
			if me := n.Objs.TakeMonErrs(); len(me) > 0 {
				res.Violate("c06-monitor", "%s: node %s: %s", when, name, me[0])
				return false
			}
		}
		return true
	}

	for i, op := range p.Ops {
		n, ok := nodes[op.Node]
		if !ok {
			res.Invalid("bad node")
			return
		}
		if op.Skew < -100000 || op.Skew > 100000 || op.Depth < 0 || op.Depth > 10 {
			res.Invalid("bad op args")
			return
		}
		clockBefore := n.Clock
		n.Clock += time.Hour + time.Duration(op.Skew)*time.Hour
		if n.Clock < 0 {
			n.Clock = time.Hour
		}
		// simulated wall-clock covered: how far this node's clock was moved (forwards or backwards)
		if d := n.Clock - clockBefore; d >= 0 {
			res.stat("sim_time_s", d.Seconds())
		} else {
			res.stat("sim_time_s", (-d).Seconds())
			res.probe("clock_jumped_backwards", 1)
		}
		when := fmt.Sprintf("op %d %s %s %s", i, op.Node, op.Op, op.Branch)
		refsBefore, _ := n.Refs()
		rRefsBefore, _ := R.Refs()
		shallowBefore := shallowOf(n.Objs)
		transStart := len(n.Ref.Trans)
		reqStart := net.Stats.Requests
		packStart := net.Stats.PackBytes
		recvStart := len(srv.Received)
		updStart := len(srv.RefUpdates)
		var args []string
		validBranch := false
		for _, b := range netBranches {
			if b == op.Branch {
				validBranch = true
			}
		}
		if op.Branch == "heads/rel" && op.Node != "R" && (op.Op == "branch" || op.Op == "commit" || (op.Op == "merge" && (op.Form == "heads" || op.Form == "refs"))) {
			validBranch = true // a local branch named heads/rel; only by unambiguous spellings
		}
		switch op.Op {
		case "commit":
			if !validBranch {
				res.Invalid("branch")
				return
			}
			f := variantFile(n, op.Variant)
			if f == "" {
				res.Invalid("variant")
				return
			}
			args = []string{"commit", op.Branch, f, fmt.Sprintf("c%d on %s", i, op.Node), "-p", pkArg, "-n", "1"}
		case "leftover":
			// state of a client whose earlier transfer died part-way: derived objects and
			// blocks of tables it does not have yet (the receiver stores the table object last)
			if op.Node == "R" || op.Variant < 0 || op.Variant > 7 {
				res.Invalid("leftover")
				return
			}
			rs := R.Objs.Snapshot()
			planted := 0
			for k, tv := range rs {
				if !strings.HasPrefix(k, "tbl/") {
					continue
				}
				sum := k[4:]
				if _, ok := n.Objs.Raw(k); ok {
					continue
				}
				if op.Variant&1 != 0 {
					for _, pfx := range []string{"tblidx/", "tblsum/"} {
						if v, ok := rs[pfx+sum]; ok {
							n.Objs.RawSet(pfx+sum, v)
							planted++
						}
					}
				}
				_, tbl, err := objects.ReadTableFrom(bytes.NewReader(tv))
				if err != nil {
					continue
				}
				for bi := range tbl.Blocks {
					if op.Variant&2 != 0 && bi%2 == 0 {
						if v, ok := rs["blk/"+string(tbl.Blocks[bi])]; ok {
							n.Objs.RawSet("blk/"+string(tbl.Blocks[bi]), v)
							planted++
						}
					}
					if op.Variant&4 != 0 && bi < len(tbl.BlockIndices) {
						if v, ok := rs["blkidx/"+string(tbl.BlockIndices[bi])]; ok {
							n.Objs.RawSet("blkidx/"+string(tbl.BlockIndices[bi]), v)
							planted++
						}
					}
				}
			}
			if planted > 0 {
				res.probe("leftover_of_interrupted_transfer", 1)
			}
			continue
		case "bigchain":
			// Variant commits on op.Branch, each with a table of its own (built through the library,
			// not the CLI): a push of the branch then has to negotiate more tables than fit one round trip
			if op.Node == "R" || !validBranch || op.Variant < 1 || op.Variant > 1200 {
				res.Invalid("bigchain")
				return
			}
			db, err := n.OpenRef()
			if err != nil {
				res.Invalid("%v", err)
				return
			}
			parent, _ := ref.GetHead(db, op.Branch)
			for k := 0; k < op.Variant; k++ {
				tcols, trows := []string{"id", "v"}, [][]string{{fmt.Sprintf("%d", k), fmt.Sprintf("chain-%d-%d", i, k)}}
				srt, err := sorter.NewSorter()
				if err != nil {
					db.Close()
					res.Invalid("%v", err)
					return
				}
				tsum, err := ingest.IngestTable(n.Objs, srt, io.NopCloser(bytes.NewReader(CSVText(tcols, trows, ','))), []string{"id"}, logr.Discard(), ingest.WithNumWorkers(1))
				if err != nil {
					db.Close()
					res.Invalid("bigchain ingest: %v", err)
					return
				}
				com := &objects.Commit{Table: tsum, AuthorName: "big", AuthorEmail: "big@x", Message: fmt.Sprintf("chain %d", k), Time: bubbleEpoch.Add(n.Clock + time.Duration(k)*time.Second)}
				if parent != nil {
					com.Parents = [][]byte{parent}
				}
				var cb bytes.Buffer
				com.WriteTo(&cb)
				csum, err := objects.SaveCommit(n.Objs, cb.Bytes())
				if err != nil {
					db.Close()
					res.Invalid("%v", err)
					return
				}
				parent = csum
			}
			ref.CommitHead(db, op.Branch, parent, &objects.Commit{AuthorName: "big", AuthorEmail: "big@x", Message: "chain"}, nil)
			db.Close()
			n.Objs.TakeMonErrs()
			res.probe("big_chain_of_tables", 1)
			continue
		case "diamond":
			// a merge with arms of different lengths, built through the library on op.Node (also R): a new base commit on
			// top of the branch, op.Variant/10 commits on the first arm, op.Variant%10 on the second, and a merge commit
			// whose parents are listed first-arm-first (Force: the other way round). A commit's distance from the tip is
			// the length of the SHORTEST parent path; every commit has a table of its own.
			la, lb := op.Variant/10, op.Variant%10
			if !validBranch || la < 1 || la > 6 || lb < 1 || lb > 6 {
				res.Invalid("diamond")
				return
			}
			{
				db, err := n.OpenRef()
				if err != nil {
					res.Invalid("%v", err)
					return
				}
				head, _ := ref.GetHead(db, op.Branch)
				seq := 0
				mk := func(parents ...[]byte) []byte {
					tcols, trows := []string{"id", "v"}, [][]string{{fmt.Sprintf("%d", seq), fmt.Sprintf("diamond-%d-%d", i, seq)}}
					srt, err := sorter.NewSorter()
					if err != nil {
						return nil
					}
					tsum, err := ingest.IngestTable(n.Objs, srt, io.NopCloser(bytes.NewReader(CSVText(tcols, trows, ','))), []string{"id"}, logr.Discard(), ingest.WithNumWorkers(1))
					if err != nil {
						return nil
					}
					com := &objects.Commit{Table: tsum, AuthorName: "dia", AuthorEmail: "dia@x", Message: fmt.Sprintf("diamond %d", seq), Time: bubbleEpoch.Add(n.Clock + time.Duration(seq)*time.Second)}
					seq++
					for _, p := range parents {
						if p != nil {
							com.Parents = append(com.Parents, p)
						}
					}
					var cb bytes.Buffer
					com.WriteTo(&cb)
					csum, err := objects.SaveCommit(n.Objs, cb.Bytes())
					if err != nil {
						return nil
					}
					return csum
				}
				base := mk(head)
				a, b := base, base
				for k := 0; k < la && a != nil; k++ {
					a = mk(a)
				}
				for k := 0; k < lb && b != nil; k++ {
					b = mk(b)
				}
				var m []byte
				if a != nil && b != nil {
					if op.Force {
						m = mk(b, a)
					} else {
						m = mk(a, b)
					}
				}
				if m == nil {
					db.Close()
					res.Invalid("diamond: building the commits failed")
					return
				}
				ref.CommitHead(db, op.Branch, m, &objects.Commit{AuthorName: "dia", AuthorEmail: "dia@x", Message: "diamond"}, nil)
				db.Close()
				n.Objs.TakeMonErrs()
				res.probe("merge_with_uneven_arms", 1)
			}
			continue
		case "rcopy":
			// a third party resets a branch of the remote to where another branch is (force push by someone else)
			if op.Node != "R" || !validBranch {
				res.Invalid("rcopy")
				return
			}
			if db, err := R.OpenRef(); err == nil {
				if h, err := ref.GetHead(db, op.Other); err == nil {
					ref.CommitHead(db, op.Branch, h, &objects.Commit{AuthorName: "third", AuthorEmail: "third@x", Message: "reset"}, nil)
				}
				db.Close()
			}
			continue
		case "rtag":
			if op.Node != "R" {
				res.Invalid("rtag on client")
				return
			}
			// a third party creates/moves a tag on the remote (no CLI command exists)
			db, err := R.OpenRef()
			if err != nil {
				res.Invalid("%v", err)
				return
			}
			if h, err := ref.GetHead(db, op.Branch); err == nil {
				ref.SaveTag(db, op.Other, h)
			}
			db.Close()
			continue
		case "fetch":
			args = []string{"fetch", "origin"}
			for _, sp := range op.Specs {
				spec := ""
				if sp.Tags {
					spec = "refs/tags/*:refs/tags/*"
				} else {
					ok := false
					for _, b := range netBranches {
						if b == sp.Branch {
							ok = true
						}
					}
					if !ok {
						res.Invalid("spec branch")
						return
					}
					spec = fmt.Sprintf("refs/heads/%s:refs/remotes/origin/%s", sp.Branch, sp.Branch)
					switch sp.DstNS {
					case "":
					case "heads":
						spec = fmt.Sprintf("refs/heads/%s:refs/heads/%s", sp.Branch, sp.Branch)
					case "backup":
						spec = fmt.Sprintf("refs/heads/%s:refs/remotes/backup/%s", sp.Branch, sp.Branch)
					case "mirror":
						spec = fmt.Sprintf("refs/heads/%s:refs/mirror/%s", sp.Branch, sp.Branch)
					default:
						res.Invalid("dst_ns")
						return
					}
					if sp.ToTag != "" {
						// local-only tag names: remote tags (v1, v2) arriving through a tags refspec or by
						// auto-following must not map onto the same destination as this refspec
						if sp.ToTag != "t1" && sp.ToTag != "t2" {
							res.Invalid("to_tag")
							return
						}
						spec = fmt.Sprintf("refs/heads/%s:refs/tags/%s", sp.Branch, sp.ToTag)
					}
				}
				if sp.Plus {
					spec = "+" + spec
				}
				args = append(args, spec)
			}
			if op.Force {
				args = append(args, "--force")
			}
			if op.Depth > 0 {
				args = append(args, "--depth", fmt.Sprint(op.Depth))
			}
		case "push":
			if !validBranch {
				res.Invalid("branch")
				return
			}
			spec := fmt.Sprintf("refs/heads/%s:refs/heads/%s", op.Branch, op.Branch)
			switch op.DstForm {
			case "":
			case "short":
				spec = fmt.Sprintf("refs/heads/%s:%s", op.Branch, op.Branch)
			case "heads":
				spec = fmt.Sprintf("refs/heads/%s:heads/%s", op.Branch, op.Branch)
			case "nodst":
				spec = "refs/heads/" + op.Branch
			case "lastseg":
				spec = fmt.Sprintf("refs/heads/%s:%s", op.Branch, op.Branch[strings.LastIndexByte(op.Branch, '/')+1:])
			default:
				res.Invalid("dst_form")
				return
			}
			if op.DstForm != "" && !op.Mirror && len(op.Specs) == 0 {
				res.probe("push_destination_"+op.DstForm, 1)
			}
			if op.Plus {
				spec = "+" + spec
			}
			args = []string{"push", "origin", spec}
			if op.Mirror {
				args = []string{"push", "origin", "--mirror"}
			} else if len(op.Specs) > 0 {
				args = []string{"push", "origin"}
				for _, sp := range op.Specs {
					var x string
					switch {
					case sp.Tag != "":
						if sp.Tag != "v1" && sp.Tag != "v2" {
							res.Invalid("tag")
							return
						}
						if _, ok := refsBefore["tags/"+sp.Tag]; !ok {
							continue
						}
						x = fmt.Sprintf("refs/tags/%s:refs/tags/%s", sp.Tag, sp.Tag)
					case sp.Delete:
						if _, ok := rRefsBefore["heads/"+sp.Branch]; !ok {
							continue
						}
						x = ":refs/heads/" + sp.Branch
					default:
						okb := false
						for _, bb := range netBranches {
							if bb == sp.Branch {
								okb = true
							}
						}
						if !okb {
							res.Invalid("spec branch")
							return
						}
						if _, ok := refsBefore["heads/"+sp.Branch]; !ok {
							continue
						}
						x = fmt.Sprintf("refs/heads/%s:refs/heads/%s", sp.Branch, sp.Branch)
					}
					if sp.Plus && !sp.Delete {
						x = "+" + x
					}
					args = append(args, x)
				}
				if len(args) == 2 {
					continue
				}
			} else if _, ok := refsBefore["heads/"+op.Branch]; !ok {
				continue // nothing to push
			}
			if op.Force {
				args = append(args, "--force")
			}
			if op.Upstream && !op.Mirror {
				args = append(args, "--set-upstream")
			}
		case "pullall":
			if op.Node == "R" {
				res.Invalid("pullall on R")
				return
			}
			args = []string{"pull", "--all", "-n", "1"}
		case "pushall":
			if op.Node == "R" {
				res.Invalid("pushall on R")
				return
			}
			args = []string{"push", "--all"}
		case "pull":
			if !validBranch {
				res.Invalid("branch")
				return
			}
			args = []string{"pull", op.Branch, "origin", fmt.Sprintf("refs/heads/%s:refs/remotes/origin/%s", op.Branch, op.Branch), "-n", "1"}
			if op.FF != "" {
				args = append(args, "--"+op.FF)
			}
			if op.Depth > 0 {
				args = append(args, "--depth", fmt.Sprint(op.Depth))
			}
			if op.Upstream {
				args = append(args, "--set-upstream")
			}
		case "branch":
			// wrgl branch create BRANCH START (skipped when the start does not exist or the branch already does)
			if !validBranch || op.Node == "R" {
				res.Invalid("branch op")
				return
			}
			if _, ok := refsBefore["remotes/"+op.Other]; !ok {
				continue
			}
			if _, ok := refsBefore["heads/"+op.Branch]; ok {
				continue
			}
			args = []string{"branch", "create", op.Branch, op.Other}
		case "merge":
			if !validBranch {
				res.Invalid("branch")
				return
			}
			if _, ok := refsBefore["heads/"+op.Branch]; !ok {
				continue
			}
			if _, ok := refsBefore["remotes/"+op.Other]; !ok {
				continue
			}
			spelled := op.Branch
			switch op.Form {
			case "":
			case "heads":
				spelled = "heads/" + op.Branch
			case "refs":
				spelled = "refs/heads/" + op.Branch
			case "short":
				spelled = op.Branch[strings.LastIndex(op.Branch, "/")+1:]
				if _, clash := refsBefore["heads/"+spelled]; clash && spelled != op.Branch {
					spelled = op.Branch
				}
			case "peel":
				spelled = op.Branch + "^"
				res.probe("merge_into_peeled_name", 1)
			case "tilde0":
				spelled = op.Branch + "~0"
			default:
				res.Invalid("form")
				return
			}
			args = []string{"merge", spelled, op.Other, "-n", "1"}
			if op.FF != "" {
				args = append(args, "--"+op.FF)
			}
		default:
			res.Invalid("bad op %q", op.Op)
			return
		}
		sqlFired := false
		if op.SQLFail > 0 {
			if op.SQLFail > 100000 {
				res.Invalid("sql_fail")
				return
			}
			before := SQLFault.Fired
			SQLFault.Arm(op.SQLFail)
			defer SQLFault.Arm(0)
			sqlFired = false
			_ = before
		}
		if op.ReqFault != nil {
			if op.ReqFault.At < 1 || op.ReqFault.At > 100 {
				res.Invalid("req_fault")
				return
			}
			f := *op.ReqFault
			f.At += net.Stats.Requests
			net.Faults = append(append([]NetFault(nil), p.Faults...), f)
		}
		var faultStore *Store
		if op.StoreFault != nil {
			switch op.FaultOn {
			case "", "self":
				faultStore = n.Objs
			case "R":
				faultStore = R.Objs
			default:
				res.Invalid("fault_on")
				return
			}
			f := *op.StoreFault
			f.seen, f.Fired = 0, 0
			faultStore.Faults = []*Fault{&f}
		}
		firedBefore := SQLFault.Fired
		net.OpBudget, net.OpStart, net.Storm = 4000, net.Stats.Requests, false
		cr := n.Run(t, args...)
		SQLFault.Arm(0)
		net.emptyPacks = false
		if os.Getenv("VERIF_DEBUG") != "" {
			fmt.Fprintf(os.Stderr, "DEBUG %s: wrgl %s -> err=%v\n%s\n", when, strings.Join(args, " "), cr.Err, cr.Stdout)
		}
		if net.Storm {
			res.Violate(pfx+"-request-storm", "%s (`wrgl %s`): the client sent more than %d requests in one operation (it keeps asking a remote that answers with empty packfiles)", when, strings.Join(args, " "), net.OpBudget)
			return
		}
		if faultStore != nil {
			if faultStore.FaultsFired() > 0 {
				sqlFired = true // treated like any other fault during the operation
				res.fault("store_op_error", 1)
			}
			faultStore.Faults = nil
		}
		if SQLFault.Fired > firedBefore {
			sqlFired = true
			res.fault("sql_statement_error", 1)
		}
		res.stat("sim_time_s", cr.Out.SimTime.Seconds())
		if cr.Out.PanicVal != nil || cr.Out.Deadlock {
			bubbleProblems(res, cr.Out, when+" `wrgl "+strings.Join(args, " ")+"`")
			return
		}
		refsAfter, _ := n.Refs()
		rRefsAfter, _ := R.Refs()
		trans := n.Ref.Trans[transStart:]
		faultDuring := false
		for _, f := range net.Faults {
			if f.At > reqStart && f.At <= net.Stats.Requests {
				faultDuring = true
			}
		}
		net.Faults = p.Faults
		if sqlFired {
			faultDuring = true
		}
		if faultDuring {
			res.probe("fault_during_op", 1)
		}
		isForced := op.Force || op.Plus

		// ---------------- C10 monitor
		if focus == "C10" && op.Node != "R" {
			objs := n.Objs
			for _, tr := range trans {
				if tr.Old == nil || tr.New == nil {
					continue // creation / deletion
				}
				if bytes.Equal(tr.Old, tr.New) {
					continue
				}
				if op.Op == "commit" {
					continue // a commit creates a child by construction
				}
				anc, err := rawAncestors(objs, tr.New)
				if err != nil {
					res.Violate("c10-dangling", "%s: ref %s moved to %x: %v", when, tr.Name, tr.New, err)
					return
				}
				isTag := strings.HasPrefix(tr.Name, "tags/")
				fetchConfForce := strings.HasPrefix(tr.Name, "remotes/") && (op.Op == "fetch" || op.Op == "pull" || op.Op == "pullall")
				tagForce := false
				if op.Op == "fetch" && len(op.Specs) > 0 {
					// explicit refspecs: only a '+' on the matching one forces
					fetchConfForce = false
					for _, sp := range op.Specs {
						if sp.Plus && !sp.Tags && sp.ToTag == "" && sp.DstNS == "" && tr.Name == "remotes/origin/"+sp.Branch {
							fetchConfForce = true
						}
						if sp.Plus && sp.ToTag != "" && tr.Name == "tags/"+sp.ToTag {
							tagForce = true
						}
						if sp.Plus && sp.ToTag == "" && sp.DstNS != "" && tr.Name == dstOfSpec(sp) {
							fetchConfForce = true
						}
						if sp.Plus && sp.Tags && isTag {
							tagForce = true
						}
					}
				}
				if op.Op == "pull" {
					fetchConfForce = false // pull passes an explicit refspec without '+'
				}
				if !anc[string(tr.Old)] {
					diverged++
					// `wrgl remote add` configures +refs/heads/*:refs/remotes/origin/* (forced refspec), like git
					if !isForced && !fetchConfForce && !(isTag && tagForce) {
						res.Violate("c10-non-ff-move", "%s (`wrgl %s`, no force): ref %s moved from %x to %x, which does not descend from it", when, strings.Join(args, " "), tr.Name, tr.Old, tr.New)
						return
					}
					forced++
				}
				if isTag && !isForced && !tagForce {
					res.Violate("c10-tag-clobbered", "%s: existing tag %s changed from %x to %x without force", when, tr.Name, tr.Old, tr.New)
					return
				}
			}
			// every logged transition has a reflog entry with the true old/new
			if len(trans) > 0 {
				db, err := n.OpenRef()
				if err == nil {
					last := map[string]RefTransition{}
					for _, tr := range trans {
						if tr.Logged {
							last[tr.Name] = tr
						}
					}
					for name, tr := range last {
						lr, err := db.LogReader(name)
						if err != nil {
							res.Violate("c10-reflog-missing", "%s: ref %s was updated with a log entry but its reflog cannot be read: %v", when, name, err)
							db.Close()
							return
						}
						rl, err := lr.Read()
						if err != nil || !bytes.Equal(rl.NewOID, tr.New) || !bytes.Equal(rl.OldOID, tr.Old) {
							res.Violate("c10-reflog-wrong", "%s: newest reflog entry of %s has old=%x new=%x, the ref went from %x to %x", when, name, rl.OldOID, rl.NewOID, tr.Old, tr.New)
							db.Close()
							return
						}
					}
					db.Close()
				}
			}
			// rejected updates are reported and leave the ref alone
			if strings.Contains(cr.Stdout, "[rejected]") {
				rejected++
				res.probe("rejected_update", 1)
			}
			if op.Op == "merge" || op.Op == "pull" {
				// a fast-forward lands exactly on the other commit
				if strings.Contains(cr.Stdout, "Fast forward to") {
					other := refsBefore["remotes/"+op.Other]
					if op.Op == "pull" {
						other = refsAfter["remotes/origin/"+op.Branch]
					}
					oldHead := refsBefore["heads/"+op.Branch]
					if other != nil && oldHead != nil {
						ancO, _ := rawAncestors(n.Objs, other)
						if ancO[string(oldHead)] && !bytes.Equal(oldHead, other) {
							// a true fast-forward: the branch must land exactly on the other commit
							if !bytes.Equal(refsAfter["heads/"+op.Branch], other) {
								res.Violate("c10-ff-not-exact", "%s: fast-forward merge left %s at %x, the other commit is %x", when, op.Branch, refsAfter["heads/"+op.Branch], other)
								return
							}
							res.probe("fast_forward", 1)
						} else if !bytes.Equal(refsAfter["heads/"+op.Branch], oldHead) {
							// the branch already contains the other commit: it must not move
							ancN, _ := rawAncestors(n.Objs, refsAfter["heads/"+op.Branch])
							if !ancN[string(oldHead)] {
								res.Violate("c10-ff-not-exact", "%s: merge reported a fast-forward and moved %s from %x to %x, which does not descend from it", when, op.Branch, oldHead, refsAfter["heads/"+op.Branch])
								return
							}
						}
					}
				}
				if op.FF == "ff-only" && cr.Err != nil && !bytes.Equal(refsBefore["heads/"+op.Branch], refsAfter["heads/"+op.Branch]) {
					res.Violate("c10-rejected-but-moved", "%s: --ff-only merge was refused (%v) but the branch moved", when, cr.Err)
					return
				}
			}
			// what the client asked the remote to do
			for _, um := range srv.Received[recvStart:] {
				for name, u := range um {
					refForced := isForced || op.Mirror
					for _, sp := range op.Specs {
						if sp.Plus && ((sp.Tag != "" && name == "tags/"+sp.Tag) || (sp.Tag == "" && name == "heads/"+sp.Branch)) {
							refForced = true
						}
					}
					if u.Sum == nil || u.OldSum == nil || refForced {
						continue
					}
					if strings.HasPrefix(name, "tags/") {
						res.Violate("c10-push-tag-clobber", "%s: push asked the remote to move existing tag %s without force", when, name)
						return
					}
					anc, err := rawAncestors(n.Objs, (*u.Sum)[:])
					if err != nil || !anc[string((*u.OldSum)[:])] {
						res.Violate("c10-push-non-ff", "%s (`wrgl %s`): push asked the remote to move %s from %x to %x, which is not a fast-forward, without force", when, strings.Join(args, " "), name, (*u.OldSum)[:], (*u.Sum)[:])
						return
					}
				}
			}
		}

		// ---------------- C09 oracles
		if c09 {
			if !checkBothSides(when) {
				return
			}
			success := cr.Err == nil
			if !success && !faultDuring && len(p.Faults) == 0 && focus != "C17" {
				// without any fault an operation may only fail for a reason the user is told about and can act on
				msg := cr.Err.Error() + "\n" + cr.Stdout
				expected := false
				for _, ok := range []string{"failed to fetch some refs", "failed to push some refs", "non-fast-forward", "rejected", "nothing to create ref", "table not found", "try fetching it", "wrgl fetch tables", "is not a branch name", "can't find branch", "can't find commit", "conflict", "nothing to push", "does not match any", "remote rejected", "unrelated", "common ancestor", "no upstream", "Everything up-to-date", "primary key differs", "can't merge", "shallow", "no remote found for table", "no refspec specified", "has no parent", "/dev/tty"} {
					if strings.Contains(msg, ok) {
						expected = true
					}
				}
				if !expected {
					res.Violate(pfx+"-unexpected-failure", "%s (`wrgl %s`): no fault was injected, yet the operation failed: %v\n%s", when, strings.Join(args, " "), cr.Err, cr.Stdout)
					return
				}
				res.probe("operation_refused", 1)
			}
			switch op.Op {
			case "fetch", "pull", "pullall":
				if success || op.Op == "fetch" {
					// refs created or moved by this process
					for _, tr := range trans {
						if tr.New == nil || !strings.HasPrefix(tr.Name, "remotes/") && !strings.HasPrefix(tr.Name, "tags/") {
							continue
						}
						if focus == "C17" {
							continue // C17 asks for no panic / hang / exhaustion and intact invariants, not completeness
						}
						if c, d := checkHistoryComplete(n.Objs, R.Objs, tr.New, op.Depth, shallowBefore); c != "" {
							if c == "table-missing" && strings.HasPrefix(tr.Name, "tags/") && op.Depth > 0 && !specsCoverTags(op.Specs) {
								// an auto-followed tag (not covered by a refspec) is stored as soon as its
								// commit exists, also when --depth left that commit shallow
								c = "table-missing-autofollowed-tag"
							}
							res.Violate(pfx+"-fetch-"+c, "%s (`wrgl %s`, err=%v): ref %s -> %x: %s", when, strings.Join(args, " "), cr.Err, tr.Name, tr.New, d)
							return
						}
					}
				}
				if success && op.Op == "fetch" && !faultDuring {
					if net.Stats.PackBytes > packStart {
						fetches++
					}
					// an immediately repeated fetch transfers nothing and changes nothing
					logLen := w.LogLen()
					pb := net.Stats.PackBytes
					n.Clock += time.Hour
					r2 := n.Run(t, args...)
					if r2.Out.PanicVal != nil || r2.Out.Deadlock {
						bubbleProblems(res, r2.Out, when+" (repeat)")
						return
					}
					if r2.Err == nil && lastFaultAt <= reqStart {
						if net.Stats.PackBytes != pb {
							res.Violate(pfx+"-repeat-transfers", "%s: an immediately repeated fetch received %d packfile bytes", when, net.Stats.PackBytes-pb)
							return
						}
						if w.LogLen() != logLen {
							res.Violate(pfx+"-repeat-writes", "%s: an immediately repeated fetch performed %d store writes (first: %s %s)", when, w.LogLen()-logLen, w.Log[logLen].Op, FmtKey(w.Log[logLen].Key))
							return
						}
					}
				}
			case "push", "pushall":
				for _, tr := range srv.RefUpdates[updStart:] {
					if tr.New == nil {
						continue
					}
					if c, d := checkHistoryComplete(R.Objs, n.Objs, tr.New, 0, nil); c != "" {
						res.Violate(pfx+"-push-"+c, "%s: remote ref %s -> %x: %s", when, tr.Name, tr.New, d)
						return
					}
				}
				if success && op.Mirror && !faultDuring && !strings.Contains(cr.Stdout, "remote rejected") {
					for name, sum := range refsAfter {
						if strings.HasPrefix(name, "txs/") {
							continue
						}
						if !bytes.Equal(rRefsAfter[name], sum) {
							res.Violate(pfx+"-mirror-incomplete", "%s: after `push --mirror` remote ref %s is %x, local %x\n%s", when, name, rRefsAfter[name], sum, cr.Stdout)
							return
						}
					}
					for name := range rRefsAfter {
						if _, ok := refsAfter[name]; !ok && !strings.HasPrefix(name, "txs/") {
							res.Violate(pfx+"-mirror-incomplete", "%s: after `push --mirror` the remote still has ref %s which does not exist locally", when, name)
							return
						}
					}
					res.probe("mirror_push", 1)
				}
				if success && len(op.Specs) > 0 || op.Mirror {
					// repeat / idempotence checks below are for the single-branch form
					if len(srv.RefUpdates) > updStart {
						pushes++
					}
					break
				}
				if success && !faultDuring && lastFaultAt <= reqStart {
					if len(srv.RefUpdates) > updStart {
						pushes++
					}
					logLen := w.LogLen()
					up := net.Stats.BytesUp
					n.Clock += time.Hour
					r2 := n.Run(t, args...)
					if r2.Out.PanicVal != nil || r2.Out.Deadlock {
						bubbleProblems(res, r2.Out, when+" (repeat)")
						return
					}
					// only meaningful if the first push was accepted for this ref
					accepted := bytes.Equal(rRefsAfter["heads/"+op.Branch], refsAfter["heads/"+op.Branch])
					if r2.Err == nil && accepted {
						if w.LogLen() != logLen {
							res.Violate(pfx+"-repeat-writes", "%s: an immediately repeated push performed %d store writes", when, w.LogLen()-logLen)
							return
						}
						if net.Stats.BytesUp-up > 4096 {
							res.Violate(pfx+"-repeat-transfers", "%s: an immediately repeated push uploaded %d bytes", when, net.Stats.BytesUp-up)
							return
						}
					}
				}
			}
			_ = rRefsBefore
		}
	}

	// bounded liveness: once faults have stopped, one more fetch succeeds
	if c09 && len(p.Faults) > 0 {
		net.Faults = nil
		n := nodes["L"]
		n.Clock += time.Hour
		reqs := net.Stats.Requests
		cr := n.Run(t, "fetch", "origin")
		if cr.Out.PanicVal != nil || cr.Out.Deadlock {
			bubbleProblems(res, cr.Out, "final fetch")
			return
		}
		if cr.Err != nil && !strings.Contains(cr.Err.Error(), "failed to fetch some refs") {
			res.Violate(pfx+"-liveness", "after the last fault, `wrgl fetch origin` still fails: %v\n%s", cr.Err, cr.Stdout)
			return
		}
		// one round trip per packfile at worst, and a packfile holds at least one object
		if bound := 64 + 3*len(R.Objs.Keys("")); net.Stats.Requests-reqs > bound {
			res.Violate(pfx+"-liveness", "final fetch needed %d requests", net.Stats.Requests-reqs)
			return
		}
		if !checkBothSides("after final fetch") {
			return
		}
		refs, _ := n.Refs()
		for name, sum := range refs {
			if strings.HasPrefix(name, "remotes/origin/") {
				if c, d := checkHistoryComplete(n.Objs, R.Objs, sum, 0, shallowOf(n.Objs)); c != "" && c != "table-missing-previously-shallow" {
					res.Violate(pfx+"-fetch-"+c, "after the final fault-free fetch: ref %s: %s", name, d)
					return
				}
			}
		}
	}
	for k, v := range net.Stats.Fired {
		res.fault(k, v)
	}
	res.stat("sim_steps", float64(w.Steps+int64(net.Stats.Requests)))
	res.stat("http_requests", float64(net.Stats.Requests))
	res.stat("packfiles", float64(net.Stats.Packfiles))
	res.stat("packfile_bytes", float64(net.Stats.PackBytes))
	res.stat("upload_pack_requests", float64(srv.UploadReqs))
	if srv.Restarts > 0 {
		res.probe("server_restart", srv.Restarts)
	}
	switch focus {
	case "C09", "C17":
		if len(p.Faults) > 0 {
			fired := 0
			for _, v := range net.Stats.Fired {
				fired += v
			}
			res.Nontrivial = fired >= 1 && net.Stats.Packfiles >= 1
		} else {
			res.Nontrivial = fetches >= 1 && pushes >= 1
		}
	case "C10":
		res.Nontrivial = rejected+forced+diverged >= 1
	}
}

func specsCoverTags(sp []NetSpec) bool {
	for _, x := range sp {
		if x.Tags {
			return true
		}
	}
	return false
}

// shallowOf: commits present without their table.
func shallowOf(objs *Store) map[string]bool {
	m := map[string]bool{}
	for _, k := range objs.Keys("com/") {
		if c := rawCommit(objs, []byte(k[4:])); c != nil {
			if _, ok := objs.Raw("tbl/" + string(c.Table)); !ok {
				m[k[4:]] = true
			}
		}
	}
	return m
}

func indexOf(xs []string, x string) int {
	for i, y := range xs {
		if y == x {
			return i
		}
	}
	return 0
}
