package sim

// C03 (own profile): boundary sizes x producers (ingest, merge result, wire
// receipt, doctor resolve); structural checker + the repository's own diagnosis.
// The checker also runs as a monitor in C01, C02, C05, C06, C07, C09, C13, C16.

import (
	"bytes"
	"context"
	"encoding/json"
	"fmt"
	"io"
	"sort"
	"testing"

	"github.com/go-logr/logr"
	apiutils "github.com/wrgl/wrgl/pkg/api/utils"
	"github.com/wrgl/wrgl/pkg/conf"
	"github.com/wrgl/wrgl/pkg/doctor"
	"github.com/wrgl/wrgl/pkg/encoding/packfile"
	"github.com/wrgl/wrgl/pkg/ingest"
	"github.com/wrgl/wrgl/pkg/objects"
	"github.com/wrgl/wrgl/pkg/prune"
	"github.com/wrgl/wrgl/pkg/sorter"
)

type C03Plan struct {
	Producer string    `json:"producer"` // ingest | merge | receive | doctor
	N        int       `json:"n"`
	NCols    int       `json:"ncols"`
	Keyless  bool      `json:"keyless"`
	EmptyRow bool      `json:"empty_row"` // include a row whose cells are all empty
	Seed     uint64    `json:"seed"`
	Cfg      IngestCfg `json:"cfg"`
	DupAt    int       `json:"dup_at"` // doctor: position of the planted duplicate
	Stale    bool      `json:"stale"`  // ingest: damaged table index / profile left under the table's key are overwritten by a re-ingest
	KeyCols  []int     `json:"key_cols,omitempty"` // composite key: column indices in declared key order (overrides the single id key)
	Huge     bool      `json:"huge,omitempty"`     // ingest only: N may exceed 1024 blocks
	Rekey    string    `json:"rekey,omitempty"`    // ingest: the same rows were committed before under another key with the same row order: "widen" (id -> id,c1), "keyless" (id -> no key), "narrow" (id,c1 -> id)
	Retain   bool      `json:"retain,omitempty"`   // the store keeps the slices handed to Set (a transactional store with pending writes) instead of copying them
	Retry    bool      `json:"retry,omitempty"`    // receive: a first receipt dies when the table object is written, prune runs, the transfer is repeated
	Reingest string    `json:"reingest,omitempty"` // doctor: repair through ingest.ReingestTable instead of doctor.Resolve: "index" (duplicates looked for in the block indices) | "blocks" (in the rows)
	ReadSeed uint64    `json:"read_seed,omitempty"` // positions read back through diff.TableReader / diff.RowListReader
	Defect   string    `json:"defect,omitempty"`   // doctor: what is wrong with the planted table: "" (an adjacent duplicated row) | rowscount (declares one row too many) | idxcount (one block index fewer than blocks) | idxmissing (a listed block index is absent) | pkrange (key index past the columns: repaired by dropping the key)
	SwapIdx  bool      `json:"swap_idx,omitempty"` // receive: afterwards the source offers a damaged copy of the table (block indices of two blocks exchanged); it is refused, or what is stored is sound
	DupEdge  bool      `json:"dup_edge,omitempty"` // ingest: the input repeats the lines whose keys end / start a block (positions 254, 255, 509, 510 in key order)
}

var c03Sizes = []int{0, 1, 2, 254, 255, 256, 509, 510, 511, 765, 766}

func init() {
	Register(&Profile{
		ID: "C03", Prop: "C03",
		Rule: "table of a boundary size (0,1,2,254,255,256,509,510,511,765,766 rows; keyed or keyless; optionally with an all-empty row) produced by each producer: ingest (workers x schedule x spill), merge commit, wire receipt (sender->packfile->receiver), doctor resolve of a planted duplicate; structural invariants + doctor.Diagnose must report nothing; non-trivial = >=255 rows or producer != ingest; distinct by plan hash",
		Gen: func(seed uint64, tier string) any {
			r := NewRand(seed)
			p := C03Plan{Producer: Pick(r, []string{"ingest", "ingest", "merge", "receive", "doctor"}), N: Pick(r, c03Sizes), NCols: r.Range(1, 4), Keyless: r.Chance(0.2), EmptyRow: r.Chance(0.25), Seed: r.Uint64(), Cfg: genIngestCfg(r.Sub("knobs"))}
			p.Cfg.Delim = ","
			if r.Chance(0.2) {
				p.N = r.Range(0, 800)
			}
			p.DupAt = r.Intn(800)
			p.Stale = r.Chance(0.25)
			p.DupEdge = r.Chance(0.3)
			if r.Chance(0.2) {
				p.Rekey = Pick(r, []string{"widen", "keyless", "narrow"})
			}
			p.Retry = r.Chance(0.3)
			p.Retain = r.Chance(0.2)
			if rr := r.Sub("reingest"); rr.Chance(0.4) {
				// sub-streams: the plans of earlier versions stay what they were
				p.Reingest = Pick(rr, []string{"index", "blocks"})
			}
			p.ReadSeed = r.Sub("readers").Uint64()
			p.SwapIdx = r.Sub("swapidx").Chance(0.5)
			if rd := r.Sub("defect"); rd.Chance(0.4) {
				p.Defect = Pick(rd, []string{"rowscount", "idxcount", "idxmissing", "pkrange"})
			}
			if r.Chance(0.4) {
				p.NCols = max(p.NCols, r.Range(2, 5))
				p.KeyCols = r.Perm(p.NCols)[:r.Range(2, min(4, p.NCols))]
				if !containsInt(p.KeyCols, 0) && r.Chance(0.7) {
					p.KeyCols[r.Intn(len(p.KeyCols))] = 0
				}
			}
			if seed%1000 == 0 {
				// more than 1024 blocks (table readers pre-allocate at most 1024 sums)
				p.Producer, p.Huge, p.N, p.NCols, p.Stale, p.EmptyRow, p.KeyCols = "ingest", true, 1024*255+r.Range(1, 700), min(p.NCols, 2), false, false, nil
				p.Cfg.RunSize = 0
			}
			return p
		},
		Exec: execC03,
	})
}

// diagnoseAll runs the repository's own diagnosis over a ref pointing at a commit of table sum.
func diagnoseAll(st *Store, tableSum []byte) (issue string, err error) {
	rs := NewMemRef()
	c := &objects.Commit{Table: tableSum, AuthorName: "a", AuthorEmail: "e", Message: "m", Time: bubbleEpoch}
	var b bytes.Buffer
	c.WriteTo(&b)
	csum := meowSum(b.Bytes())
	st.RawSet("com/"+string(csum), b.Bytes())
	rs.Set("heads/main", csum)
	d := doctor.NewDoctor(st, rs, conf.User{Name: "u", Email: "u@x"}, logr.Discard())
	ch, errCh, err := d.Diagnose(context.Background(), nil, nil, nil)
	if err != nil {
		return "", err
	}
	for ri := range ch {
		for _, is := range ri.Issues {
			return fmt.Sprintf("%s (resolution %s)", is.Err, is.Resolution), nil
		}
	}
	for e := range errCh {
		if e != nil {
			return "", e
		}
	}
	return "", nil
}

func execC03(t *testing.T, raw json.RawMessage, res *Result) {
	var p C03Plan
	if err := json.Unmarshal(raw, &p); err != nil {
		res.Invalid("plan: %v", err)
		return
	}
	if p.N < 0 || (p.N > 3000 && !(p.Huge && p.N <= 300000 && p.Producer == "ingest")) || p.NCols < 1 || p.NCols > 8 || p.Cfg.Workers < 0 || p.Cfg.Workers > 64 {
		res.Invalid("plan out of range")
		return
	}
	cols, pk, rows := SynthSpec{N: p.N, NCols: p.NCols, Seed: p.Seed}.Build()
	if len(p.KeyCols) > 0 {
		pk = nil
		seen := map[int]bool{}
		for _, j := range p.KeyCols {
			if j < 0 || j >= len(cols) || seen[j] || len(p.KeyCols) > 6 {
				res.Invalid("key_cols")
				return
			}
			seen[j] = true
			pk = append(pk, cols[j])
		}
		res.probe("composite_key", 1)
		if len(pk) >= 3 {
			res.probe("composite_key_3plus", 1)
		}
	}
	if p.Keyless {
		pk = nil
	}
	if p.EmptyRow && p.NCols >= 2 {
		rows = append(rows, make([]string, p.NCols))
	}
	rows = NormaliseCSV(cols, DedupeByKey(cols, pk, rows))
	input := rows
	if p.DupEdge && p.Producer == "ingest" && len(rows) >= 255 && !p.Huge {
		// repeated lines of the rows that end or start a block: the duplicate is dropped, the
		// block's first key in the table index must still be the first row actually stored
		input = withEdgeDuplicates(cols, pk, rows)
		res.probe("duplicate_lines_at_block_edges", 1)
	}
	w := &World{}
	st := NewStore("L", w)
	st.Monitor = MonitorC06
	if p.Retain {
		res.probe("store_retains_slices", 1)
	}
	var sum []byte
	checkStore := st
	switch p.Producer {
	case "ingest":
		if p.Rekey != "" && len(p.KeyCols) == 0 && !p.Keyless && !p.Huge && p.NCols >= 2 && len(rows) > 0 {
			// the same rows, in the same order, under another key, committed first: every block of the
			// table under test is then in the store already, with the block indices of the other key
			var pk0 []string
			switch p.Rekey {
			case "widen":
				pk0, pk = []string{cols[0]}, []string{cols[0], cols[1]}
			case "narrow":
				pk0, pk = []string{cols[0], cols[1]}, []string{cols[0]}
			case "keyless":
				pk0, pk = []string{cols[0]}, nil
			default:
				res.Invalid("rekey")
				return
			}
			if _, err := ingestPlain(t, st, cols, pk0, rows); err != nil {
				res.Invalid("first ingest: %v", err)
				return
			}
			st.TakeMonErrs()
			res.probe("same_rows_under_another_key_first", 1)
		}
		st.Retain = p.Retain // from here on: the producer under test
		run := RunIngest(t, st, CSVText(cols, input, ','), pk, p.Cfg)
		if bubbleProblems(res, run.Out, "ingest") {
			return
		}
		if run.Err != nil {
			res.Violate("ingest-error", "%v", run.Err)
			return
		}
		sum = run.Sum
		res.stat("sim_steps", float64(run.Sched.Steps))
		if p.Stale {
			// derived objects keyed by the table sum were damaged (or written by an older
			// version): committing the same data again must leave them sound
			st.RawSet("tblidx/"+string(sum), []byte{0, 0, 0, 1, 0, 0, 0, 9})
			st.RawSet("tblsum/"+string(sum), []byte("garbage"))
			st.TakeMonErrs()
			run2 := RunIngest(t, st, CSVText(cols, rows, ','), pk, p.Cfg)
			if bubbleProblems(res, run2.Out, "re-ingest") {
				return
			}
			if run2.Err != nil || !bytes.Equal(run2.Sum, sum) {
				res.Violate("ingest-error", "re-ingest: err=%v sum %x vs %x", run2.Err, run2.Sum, sum)
				return
			}
			if v, _ := st.Raw("tblsum/" + string(sum)); string(v) == "garbage" {
				res.Violate("stale-derived-object", "re-ingesting the table left the damaged profile under tblsum/%x untouched", sum)
				return
			}
			res.probe("stale_derived_overwritten", 1)
		}
	case "merge":
		if len(pk) == 0 || len(rows) == 0 || p.NCols < 2 {
			res.Skip("merge producer needs a keyed table with a non-key column")
			return
		}
		_, _, r1 := ApplyEdits(cols, pk, rows, []Edit{{Op: "setcell", Row: 0, Col: 1, Val: "B1"}, {Op: "addrow", Cells: txRow(cols, pk, 1)}})
		_, _, r2 := ApplyEdits(cols, pk, rows, []Edit{{Op: "setcell", Row: len(rows) - 1, Col: p.NCols - 1, Val: "B2"}, {Op: "addrow", Cells: txRow(cols, pk, 2)}})
		if len(rows) == 1 {
			_, _, r2 = ApplyEdits(cols, pk, rows, []Edit{{Op: "addrow", Cells: txRow(cols, pk, 2)}})
		}
		base, err := ingestPlain(t, st, cols, pk, rows)
		if err != nil {
			res.Invalid("%v", err)
			return
		}
		b1, err1 := ingestPlain(t, st, cols, pk, r1)
		b2, err2 := ingestPlain(t, st, cols, pk, r2)
		if err1 != nil || err2 != nil {
			res.Invalid("%v %v", err1, err2)
			return
		}
		var out *mergeOutcome
		var mErr error
		st.Retain = p.Retain
		bo := Bubble(t, 0, func(mainDone *bool) {
			out, mErr = runMerge(t, st, base, [][]byte{b1, b2}, 0, "blocks", p.Cfg.Workers)
			*mainDone = true
		})
		if bubbleProblems(res, bo, "merge") {
			return
		}
		if mErr != nil {
			res.Violate("merge-error", "%v", mErr)
			return
		}
		if len(out.Conflicts) > 0 {
			res.Violate("merge-conflict", "disjoint edits reported %d conflicts", len(out.Conflicts))
			return
		}
		sum = out.TableSum
	case "receive":
		src := st
		s0, err := ingestPlain(t, src, cols, pk, rows)
		if err != nil {
			res.Invalid("%v", err)
			return
		}
		c := &objects.Commit{Table: s0, AuthorName: "a", AuthorEmail: "e", Message: "m", Time: bubbleEpoch}
		var cb bytes.Buffer
		c.WriteTo(&cb)
		c.Sum = meowSum(cb.Bytes())
		src.RawSet("com/"+string(c.Sum), cb.Bytes())
		sender, err := apiutils.NewObjectSender(src, []*objects.Commit{c}, map[string]struct{}{string(s0): {}}, nil, Pick(NewRand(p.Seed), []uint64{0, 1, 300, 5000}))
		if err != nil {
			res.Invalid("sender: %v", err)
			return
		}
		dst := NewStore("dst", w)
		dst.Monitor = MonitorC06
		dst.Retain = p.Retain
		if p.Retry {
			// first attempt: the write of the table object fails; then prune (an unreachable commit makes
			// it do its work); then the transfer is repeated from scratch
			s1, err := apiutils.NewObjectSender(src, []*objects.Commit{c}, map[string]struct{}{string(s0): {}}, nil, 0)
			if err != nil {
				res.Invalid("sender: %v", err)
				return
			}
			var b1 bytes.Buffer
			if _, _, err := s1.WriteObjects(&b1, nil); err != nil {
				res.Invalid("write: %v", err)
				return
			}
			dst.Faults = []*Fault{{Op: "set", Prefix: "tbl/", Nth: 1}}
			r1 := apiutils.NewObjectReceiver(dst, [][]byte{c.Sum}, logr.Discard())
			if pr, err := packfile.NewPackfileReader(io.NopCloser(bytes.NewReader(b1.Bytes()))); err == nil {
				_, err = r1.Receive(pr, nil)
				if err == nil && len(rows) > 0 {
					res.Violate("receive-error", "the write of the table object failed but Receive reported success")
					return
				}
			}
			dst.Faults = nil
			stray := &objects.Commit{Table: meowSum([]byte("gone")), AuthorName: "x", AuthorEmail: "x", Message: "stray", Time: bubbleEpoch}
			var sb bytes.Buffer
			stray.WriteTo(&sb)
			dst.RawSet("com/"+string(meowSum(sb.Bytes())), sb.Bytes())
			var perr error
			bo := Bubble(t, 0, func(mainDone *bool) {
				perr = prune.Prune(dst, NewMemRef(), nil)
				*mainDone = true
			})
			if bubbleProblems(res, bo, "prune between the attempts") {
				return
			}
			if perr != nil {
				res.Violate("prune-error", "prune between the two receipts failed: %v", perr)
				return
			}
			dst.TakeMonErrs()
			res.probe("receipt_interrupted_pruned_repeated", 1)
		}
		recv := apiutils.NewObjectReceiver(dst, [][]byte{c.Sum}, logr.Discard())
		for i := 0; i < 100000; i++ {
			var buf bytes.Buffer
			done, _, err := sender.WriteObjects(&buf, nil)
			if err != nil {
				res.Violate("sender-error", "%v", err)
				return
			}
			pr, err := packfile.NewPackfileReader(io.NopCloser(bytes.NewReader(buf.Bytes())))
			if err != nil {
				res.Violate("receive-error", "%v", err)
				return
			}
			if _, err := recv.Receive(pr, nil); err != nil {
				res.Violate("receive-error", "%v", err)
				return
			}
			if done {
				break
			}
		}
		if me := dst.TakeMonErrs(); len(me) > 0 {
			res.Violate("c06-monitor", "%s", me[0])
			return
		}
		sum, checkStore = s0, dst
		if srcTbl, err := objects.GetTable(src, s0); p.SwapIdx && err == nil && len(srcTbl.Blocks) >= 2 && !bytes.Equal(srcTbl.BlockIndices[0], srcTbl.BlockIndices[1]) {
			// the destination now holds every block and block index of the table; a damaged copy of the
			// table at the source names the same objects with two block indices exchanged
			bad := *srcTbl
			bad.BlockIndices = append([][]byte(nil), srcTbl.BlockIndices...)
			bad.BlockIndices[0], bad.BlockIndices[1] = bad.BlockIndices[1], bad.BlockIndices[0]
			var tb bytes.Buffer
			bad.WriteTo(&tb)
			badSum := meowSum(tb.Bytes())
			src.RawSet("tbl/"+string(badSum), tb.Bytes())
			c2 := &objects.Commit{Table: badSum, AuthorName: "a", AuthorEmail: "e", Message: "damaged", Time: bubbleEpoch, Parents: [][]byte{c.Sum}}
			var cb2 bytes.Buffer
			c2.WriteTo(&cb2)
			c2.Sum = meowSum(cb2.Bytes())
			src.RawSet("com/"+string(c2.Sum), cb2.Bytes())
			src.TakeMonErrs()
			var rerr error
			if s2, err := apiutils.NewObjectSender(src, []*objects.Commit{c2}, map[string]struct{}{string(badSum): {}}, [][]byte{c.Sum}, 0); err == nil {
				var buf bytes.Buffer
				if _, _, err := s2.WriteObjects(&buf, nil); err == nil {
					if pr, err := packfile.NewPackfileReader(io.NopCloser(bytes.NewReader(buf.Bytes()))); err == nil {
						_, rerr = apiutils.NewObjectReceiver(dst, [][]byte{c2.Sum}, logr.Discard()).Receive(pr, nil)
					}
				}
				dst.TakeMonErrs()
				if _, ok := dst.Raw("tbl/" + string(badSum)); ok {
					if c, d := CheckTable(dst, badSum); c != "" {
						res.Violate("receive-damaged-table-stored:"+c, "a table whose block indices are exchanged between two blocks was received (err %v) and stored: %s", rerr, d)
						return
					}
				}
				res.probe("damaged_table_offered_after_the_honest_one", 1)
			}
		}
	case "doctor":
		if len(rows) < 2 {
			res.Skip("doctor producer needs >= 2 rows")
			return
		}
		// plant a table whose blocks contain an adjacent duplicated row
		good, err := ingestPlain(t, st, cols, pk, rows)
		if err != nil {
			res.Invalid("%v", err)
			return
		}
		_, sorted, err := ReadTableRaw(st, good)
		if err != nil {
			res.Invalid("%v", err)
			return
		}
		at := p.DupAt % len(sorted)
		bad := append(append([][]string{}, sorted[:at+1]...), sorted[at:]...)
		switch p.Defect {
		case "":
		case "rowscount", "idxcount", "idxmissing", "pkrange":
			if p.Reingest != "" {
				p.Reingest = "" // ReingestTable looks for duplicated rows only
			}
			bad = sorted
		default:
			res.Invalid("defect")
			return
		}
		tbl := &objects.Table{Columns: cols, RowsCount: uint32(len(bad))}
		pkIdx, _ := pkIndices(cols, pk)
		for _, u := range pkIdx {
			tbl.PK = append(tbl.PK, uint32(u))
		}
		enc := objects.NewStrListEncoder(true)
		for off := 0; off < len(bad); off += 255 {
			end := min(off+255, len(bad))
			var bb bytes.Buffer
			objects.WriteBlockTo(enc, &bb, bad[off:end])
			bs, _, err := objects.SaveBlock(st, nil, bb.Bytes())
			if err != nil {
				res.Invalid("%v", err)
				return
			}
			idx, err := objects.IndexBlock(enc, newMeow(), bad[off:end], tbl.PK)
			if err != nil {
				res.Invalid("%v", err)
				return
			}
			var ib bytes.Buffer
			idx.WriteTo(&ib)
			is, _, err := objects.SaveBlockIndex(st, nil, ib.Bytes())
			if err != nil {
				res.Invalid("%v", err)
				return
			}
			tbl.Blocks = append(tbl.Blocks, bs)
			tbl.BlockIndices = append(tbl.BlockIndices, is)
		}
		switch p.Defect {
		case "rowscount":
			tbl.RowsCount++
		case "idxcount":
			tbl.BlockIndices = tbl.BlockIndices[:len(tbl.BlockIndices)-1]
		case "idxmissing":
			st.RawDelete("blkidx/" + string(tbl.BlockIndices[at%len(tbl.BlockIndices)]))
		case "pkrange":
			tbl.PK = []uint32{uint32(len(cols))}
		}
		if p.Defect != "" {
			res.probe("doctor_defect_"+p.Defect, 1)
		}
		var tb bytes.Buffer
		tbl.WriteTo(&tb)
		badSum, err := objects.SaveTable(st, tb.Bytes())
		if err != nil {
			res.Invalid("%v", err)
			return
		}
		st.TakeMonErrs() // the planted table is deliberately defective
		st.Monitor = MonitorC06
		rs := NewMemRef()
		c := &objects.Commit{Table: badSum, AuthorName: "a", AuthorEmail: "e", Message: "m", Time: bubbleEpoch}
		var cb bytes.Buffer
		c.WriteTo(&cb)
		csum, _ := objects.SaveCommit(st, cb.Bytes())
		rs.Set("heads/main", csum)
		if p.Reingest != "" {
			if p.Reingest != "index" && p.Reingest != "blocks" {
				res.Invalid("reingest")
				return
			}
			// the library entry point of the same repair: duplicates are looked for in the block indices
			// or in the rows; a table it hands back must be the sound, de-duplicated one
			badTbl, err := objects.GetTable(st, badSum)
			if err != nil {
				res.Invalid("%v", err)
				return
			}
			goodTbl, err := objects.GetTable(st, good)
			if err != nil {
				res.Invalid("%v", err)
				return
			}
			var rerr, gerr error
			var gsum []byte
			st.Retain = p.Retain
			bo := Bubble(t, 0, func(mainDone *bool) {
				defer func() { *mainDone = true }()
				srt, err := sorter.NewSorter(sorter.WithRunSize(p.Cfg.RunSize))
				if err != nil {
					rerr = err
					return
				}
				defer srt.Close()
				gsum, gerr = ingest.ReingestTable(st, srt, goodTbl, p.Reingest == "index", logr.Discard())
				sum, rerr = ingest.ReingestTable(st, srt, badTbl, p.Reingest == "index", logr.Discard(), ingest.WithNumWorkers(max(1, p.Cfg.Workers)))
			})
			if bubbleProblems(res, bo, "reingest") {
				return
			}
			if rerr != nil || gerr != nil {
				res.Violate("reingest-error", "ReingestTable failed: %v / %v", rerr, gerr)
				return
			}
			if gsum != nil {
				if c, d := CheckTable(st, gsum); c != "" {
					res.Violate("reingest-"+c, "ReingestTable over a sound table of %d rows returned a defective table: %s", len(sorted), d)
					return
				}
				if _, got, err := ReadTableRaw(st, gsum); err != nil || !sameRows(got, sorted) {
					res.Violate("reingest-rows-wrong", "ReingestTable over a sound table of %d rows returned another table (%d rows, err %v)", len(sorted), len(got), err)
					return
				}
				res.probe("reingest_of_sound_table", 1)
			}
			if sum == nil {
				// the search did not see the planted duplicate (block-index search across a block edge):
				// no table was produced, nothing to judge
				res.probe("reingest_duplicate_not_seen", 1)
				res.Skip("ReingestTable did not re-ingest")
				return
			}
			if bytes.Equal(sum, badSum) {
				res.Violate("doctor-not-repaired", "ReingestTable returned the defective table")
				return
			}
			if _, got, err := ReadTableRaw(st, sum); err != nil || !sameRows(got, sorted) {
				res.Violate("doctor-rows-wrong", "ReingestTable: repaired table has %d rows (err %v), the de-duplicated table has %d, or rows differ", len(got), err, len(sorted))
				return
			}
			res.probe("reingest_"+p.Reingest, 1)
			break
		}
		var derr error
		var newHead []byte
		var resolution string
		st.Retain = p.Retain
		bo := Bubble(t, 0, func(mainDone *bool) {
			d := doctor.NewDoctor(st, rs, conf.User{Name: "u", Email: "u@x"}, logr.Discard())
			ch, errCh, err := d.Diagnose(context.Background(), nil, nil, nil)
			if err != nil {
				derr = err
				return
			}
			var issues []*doctor.Issue
			for ri := range ch {
				issues = append(issues, ri.Issues...)
			}
			for e := range errCh {
				if e != nil {
					derr = e
					return
				}
			}
			if len(issues) == 0 {
				derr = fmt.Errorf("planted duplicate at row %d not diagnosed", at)
				return
			}
			resolution = string(issues[0].Resolution)
			derr = d.Resolve(issues)
			newHead, _ = rs.Get("heads/main")
			*mainDone = true
		})
		if bubbleProblems(res, bo, "doctor") {
			return
		}
		if derr != nil {
			res.Violate("doctor-error", "diagnose/resolve of a table with a duplicated row failed: %v", derr)
			return
		}
		if p.Defect != "" && resolution == string(doctor.RemoveResolution) {
			// the repository cannot read the planted table at all and drops the commit: no table is produced
			res.probe("doctor_defect_"+p.Defect+"_commit_removed", 1)
			res.Skip("planted table unreadable: commit removed, no table produced")
			return
		}
		nc := rawCommit(st, newHead)
		if nc == nil {
			res.Violate("doctor-error", "after Resolve heads/main does not point at a readable commit")
			return
		}
		sum = nc.Table
		if bytes.Equal(sum, badSum) && p.Defect != "idxmissing" { // (a table whose only defect is an absent block index is repaired in place: the re-ingest writes the index back)
			res.Violate("doctor-not-repaired", "Resolve left the branch on the defective table")
			return
		}
		ntbl, got, err := ReadTableRaw(st, sum)
		if err != nil || len(got) != len(sorted) {
			res.Violate("doctor-rows-wrong", "repaired table (planted defect %q) has %d rows (err %v), the sound table has %d", p.Defect, len(got), err, len(sorted))
			return
		}
		if p.Defect == "pkrange" {
			if len(ntbl.PK) != 0 {
				res.Violate("doctor-not-repaired", "the key index past the columns was repaired into key %v, not dropped", ntbl.PK)
				return
			}
			a, b := append([][]string(nil), got...), append([][]string(nil), sorted...)
			byBytes := func(x [][]string) {
				sort.Slice(x, func(i, j int) bool { return string(encStrList(x[i])) < string(encStrList(x[j])) })
			}
			byBytes(a)
			byBytes(b)
			if !sameRows(a, b) {
				res.Violate("doctor-rows-wrong", "the table repaired by dropping the key does not hold the rows of the planted one")
				return
			}
		} else if !sameRows(got, sorted) {
			res.Violate("doctor-rows-wrong", "repaired table (planted defect %q) holds other rows than the sound table", p.Defect)
			return
		}
	default:
		res.Invalid("producer")
		return
	}
	if me := st.TakeMonErrs(); len(me) > 0 {
		res.Violate("c06-monitor", "%s", me[0])
		return
	}
	if c, d := CheckTable(checkStore, sum); c != "" {
		res.Violate(p.Producer+"-"+c, "%s table (%d rows): %s", p.Producer, len(rows), d)
		return
	}
	if !p.Huge {
		if c, d := CheckRowReaders(checkStore, sum, NewRand(p.ReadSeed)); c != "" {
			res.Violate(p.Producer+"-"+c, "%s table (%d rows): %s", p.Producer, len(rows), d)
			return
		}
		res.probe("row_readers", 1)
	}
	issue, err := diagnoseAll(checkStore, sum)
	if err != nil {
		res.Violate("diagnose-error", "doctor.Diagnose on a %s table failed: %v", p.Producer, err)
		return
	}
	if issue != "" {
		res.Violate("diagnose-reports-issue", "the repository's own diagnosis reports %q for a sound %s table of %d rows", issue, p.Producer, len(rows))
		return
	}
	res.probe("producer_"+p.Producer, 1)
	if len(rows) > 1024*255 {
		res.probe("table_over_1024_blocks", 1)
	}
	res.Nontrivial = len(rows) >= 255 || p.Producer != "ingest"
}

func containsInt(xs []int, x int) bool { return contains(xs, x) }
