package sim

// C16: concurrent pipelines under the parking scheduler with the race detector
// (race binary, one case per OS process). Verdicts: data race (read by the
// parent from the race log), outcome vs 1-worker canonical run, deadlock,
// panic, error propagation.

import (
	"bytes"
	"encoding/json"
	"fmt"
	"strings"
	"testing"
)

type SynthSpec struct {
	N     int    `json:"n"`
	NCols int    `json:"ncols"`
	Seed  uint64 `json:"seed"`
	Dups  int    `json:"dups"` // every Dups-th row repeats an earlier key (0 = none)
	Big   int    `json:"big,omitempty"` // length of one huge cell in the last column of row 0 (needs ncols >= 2)
	Groups int   `json:"groups,omitempty"` // >0: composite key (grp,id) with this many group values
	PrefixGroups bool `json:"prefix_groups,omitempty"` // group values that are prefixes of one another (a, a0, a00, a000, b, a1, a9; the ids that follow are digits): joined keys order differently from column-wise ones
	Wide   int   `json:"wide,omitempty"`   // >0: every non-key cell is padded to this length (a block of 255 such rows decodes to tens of MB)
}

func (s SynthSpec) Build() (cols []string, pk []string, rows [][]string) {
	r := NewRand(s.Seed)
	nc := s.NCols
	if nc < 1 {
		nc = 1
	}
	cols = make([]string, nc)
	for i := range cols {
		cols[i] = fmt.Sprintf("c%d", i)
	}
	cols[0] = "id"
	pk = []string{"id"}
	perm := r.Perm(s.N)
	rows = make([][]string, s.N)
	for i := 0; i < s.N; i++ {
		row := make([]string, nc)
		id := perm[i]
		if s.Dups > 0 && i > 0 && i%s.Dups == 0 {
			id = perm[r.Intn(i)]
		}
		row[0] = fmt.Sprintf("%06d", id)
		for j := 1; j < nc; j++ {
			row[j] = fmt.Sprintf("v%d_%d", r.Intn(50), j)
		}
		rows[i] = row
	}
	if s.Groups > 0 {
		// composite key (grp, id): many rows share the leading key column across block boundaries
		cols = append([]string{"grp"}, cols...)
		pk = []string{"grp", "id"}
		for i := range rows {
			g := string(rune('A' + (i*7+int(s.Seed%5))%s.Groups))
			if s.PrefixGroups {
				g = []string{"a", "a0", "a00", "a000", "b", "a1", "a9"}[(i*7+int(s.Seed%5))%s.Groups%7]
			}
			rows[i] = append([]string{g}, rows[i]...)
		}
		nc++
	}
	if s.Wide > 0 && s.Wide <= 65535 {
		for i := range rows {
			for j := 1; j < len(rows[i]); j++ {
				if cols[j] != "id" && len(rows[i][j]) < s.Wide {
					rows[i][j] += strings.Repeat("w", s.Wide-len(rows[i][j]))
				}
			}
		}
	}
	if s.Big > 0 && s.Big <= 70000 && nc >= 2 && s.N > 0 {
		rows[0][nc-1] = strings.Repeat("B", s.Big)
	}
	return
}

type C16Plan struct {
	Kind   string    `json:"kind"` // ingest | diff | merge
	Synth  SynthSpec `json:"synth"`
	Cfg    IngestCfg `json:"cfg"`
	Faults []*Fault  `json:"faults,omitempty"`
	// diff/merge specifics
	Edits  []Edit `json:"edits,omitempty"`
	Edits2 []Edit `json:"edits2,omitempty"`
	// merge: a third branch (its differ is a third goroutine feeding the merger); Order lists the three branches
	Edits3 []Edit `json:"edits3,omitempty"`
	Order  []int  `json:"order,omitempty"`
	Consumer string `json:"consumer,omitempty"` // merge: "" drain first | "early" ask for columns right after the first message
}

func init() {
	Register(&Profile{
		ID: "C16", Prop: "C16", Race: true,
		Rule: "one OS process per case under -race: synthetic multi-block table x worker count 3..16 x run size x store-op schedule seed x 0-2 injected store errors; non-trivial = >=2 effective workers and >=2 blocks; distinct by plan hash",
		Gen: func(seed uint64, tier string) any {
			r := NewRand(seed)
			maxBlocks := 6
			if tier == "thorough" {
				maxBlocks = 40
			}
			p := C16Plan{Kind: Pick(r, []string{"ingest", "ingest", "diff", "merge"})}
			if p.Kind != "ingest" {
				maxBlocks = min(maxBlocks, 4)
			}
			p.Synth = SynthSpec{N: r.Range(1, maxBlocks*255), NCols: r.Range(1, 4), Seed: r.Uint64(), Dups: Pick(r, []int{0, 0, 7, 100})}
			if r.Chance(0.3) {
				p.Synth.N = Pick(r, []int{255, 256, 510, 511, 765, 1020})
			}
			p.Cfg = IngestCfg{Delim: ",", RunSize: Pick(r, []uint64{0, 0, 2048, 20000}), Workers: r.Range(3, 16), SchedSeed: r.Uint64()}
			if p.Kind != "ingest" {
				cols, pk, _ := p.Synth.Build()
				p.Synth.Dups = 0
				p.Synth.NCols = max(p.Synth.NCols, 2)
				cols, pk, _ = p.Synth.Build()
				p.Edits = genRowEdits(r.Sub("e1"), cols, pk, p.Synth.N, 6)
				e1, e2 := genDisjointEdits(r.Sub("e2"), cols, pk, p.Synth.N)
				if p.Kind == "merge" {
					p.Edits, p.Edits2 = e1, e2
					p.Consumer = Pick(r, []string{"", "early"})
					if r.Chance(0.6) && p.Synth.N > 0 {
						// three branches: which differ finishes first is up to the schedule, the result is not
						usedRows := map[int]bool{}
						for _, e := range append(append([]Edit{}, e1...), e2...) {
							if e.Op == "setcell" {
								usedRows[e.Row] = true
							}
						}
						pkIdx, _ := pkIndices(cols, pk)
						for k := r.Range(0, 3); k > 0; k-- {
							row := r.Intn(p.Synth.N)
							if usedRows[row] {
								continue
							}
							usedRows[row] = true
							for j := range cols {
								if !contains(pkIdx, j) {
									p.Edits3 = append(p.Edits3, Edit{Op: "setcell", Row: row, Col: j, Val: fmt.Sprintf("E3_%d", row)})
									break
								}
							}
						}
						cells := make([]string, len(cols))
						for j := range cells {
							cells[j] = "n3"
							if contains(pkIdx, j) {
								cells[j] = fmt.Sprintf("Z3_%d", r.Intn(1000))
							}
						}
						p.Edits3 = append(p.Edits3, Edit{Op: "addrow", Cells: cells})
						p.Order = r.Perm(3)
					}
				}
				if r.Chance(0.4) {
					// transient, or persistent from the Nth read on (every goroutine of the pipeline then fails)
					p.Faults = append(p.Faults, &Fault{Op: Pick(r, []string{"get", "get", "read", "any"}), Prefix: Pick(r, []string{"", "blkidx/", "blk/", "tblidx/"}), Nth: r.Range(1, 8), Sticky: r.Chance(0.4)})
				}
				return p
			}
			if r.Chance(0.35) {
				nf := r.Range(1, 2)
				for i := 0; i < nf; i++ {
					p.Faults = append(p.Faults, &Fault{Op: Pick(r, []string{"set", "set", "write", "any"}), Prefix: Pick(r, []string{"", "blk/", "blkidx/", "tbl/", "tblidx/"}), Nth: r.Range(1, 6), Sticky: r.Chance(0.4)})
				}
				if r.Chance(0.5) {
					// more blocks than the sorter's output buffer (10) plus the workers can hold: when the ingest
					// gives up, the sorter is still parked on a send
					p.Synth.N = r.Range(16, 30) * 255
					p.Cfg.Workers = r.Range(3, 6)
				}
			}
			return p
		},
		Exec: execC16,
	})
}

func execC16(t *testing.T, raw json.RawMessage, res *Result) {
	var p C16Plan
	if err := json.Unmarshal(raw, &p); err != nil {
		res.Invalid("plan: %v", err)
		return
	}
	if p.Synth.N < 0 || p.Synth.N > 200000 || p.Synth.NCols > 16 || p.Cfg.Workers < 0 || p.Cfg.Workers > 64 {
		res.Invalid("plan out of range")
		return
	}
	switch p.Kind {
	case "ingest", "":
		execC16Ingest(t, &p, res)
	case "diff":
		execC16Diff(t, &p, res)
	case "merge":
		execC16Merge(t, &p, res)
	default:
		res.Invalid("unknown kind")
	}
}

func execC16Ingest(t *testing.T, p *C16Plan, res *Result) {
	cols, pk, rows := p.Synth.Build()
	text := CSVText(cols, rows, ',')
	// reference: one worker, canonical schedule, fault-free
	w0 := &World{}
	ref := NewStore("ref", w0)
	r0 := RunIngest(t, ref, text, pk, IngestCfg{Delim: ",", RunSize: p.Cfg.RunSize, Workers: 1, Policy: "fifo"})
	if bubbleProblems(res, r0.Out, "reference ingest") {
		return
	}
	if r0.Err != nil {
		res.Violate("ingest-error", "1-worker ingest failed: %v", r0.Err)
		return
	}
	w := &World{}
	st := NewStore("L", w)
	st.Faults = p.Faults
	run := RunIngest(t, st, text, pk, p.Cfg)
	res.stat("sim_steps", float64(run.Sched.Steps+r0.Sched.Steps))
	res.stat("sched_choices", float64(run.Sched.Choices))
	res.stat("max_pending", float64(run.Sched.MaxPend))
	res.hashOf(fmt.Sprintf("sched:%x", run.Sched.Hash()))
	if bubbleProblems(res, run.Out, "ingest") {
		return
	}
	fired := st.FaultsFired()
	if fired > 0 {
		res.fault("store_error", fired)
		if run.Sched.MaxPend >= 2 {
			res.probe("error_while_others_parked", 1)
		}
		if run.Err == nil {
			res.Violate("error-swallowed", "%d injected store errors but ingest returned success (sum %x)", fired, run.Sum)
		}
		res.Nontrivial = true
		return
	}
	if run.Err != nil {
		res.Violate("ingest-error", "ingest failed without a fault: %v", run.Err)
		return
	}
	if !bytes.Equal(run.Sum, r0.Sum) {
		c, d := CheckTable(st, run.Sum)
		res.Violate("outcome-differs", "table id %x with %d workers differs from 1-worker id %x (%s %s)", run.Sum, p.Cfg.Workers, r0.Sum, c, d)
		return
	}
	if c, d := CheckTable(st, run.Sum); c != "" {
		res.Violate("c03-"+c, "%s", d)
		return
	}
	nblocks := (p.Synth.N + 254) / 255
	eff := p.Cfg.Workers - 2
	if eff >= 2 && nblocks >= 2 {
		res.Nontrivial = true
		res.probe("multi_worker_multi_block", 1)
	}
	if run.Sched.MaxPend >= 2 {
		res.probe("overlapping_store_ops", 1)
	}
}


// execC16Diff: diff.DiffTables (producer goroutine vs consumer) under the
// scheduler with the race detector; optional injected read error.
func execC16Diff(t *testing.T, p *C16Plan, res *Result) {
	cols, pk, rows := p.Synth.Build()
	for _, e := range p.Edits {
		if e.Op != "setcell" && e.Op != "delrow" && e.Op != "addrow" {
			res.Invalid("row-level edits only")
			return
		}
	}
	_, _, rows2 := ApplyEdits(cols, pk, rows, p.Edits)
	rows2 = DedupeByKey(cols, pk, rows2)
	w := &World{}
	st := NewStore("L", w)
	s1, err1 := ingestPlain(t, st, cols, pk, rows)
	s2, err2 := ingestPlain(t, st, cols, pk, rows2)
	if err1 != nil || err2 != nil {
		res.Invalid("ingest: %v %v", err1, err2)
		return
	}
	// reference (fault-free, unscheduled)
	want, err := runDiff(st, st, s2, s1)
	if err != nil {
		res.Violate("diff-error", "fault-free diff failed: %v", err)
		return
	}
	st.Faults = p.Faults
	sc := NewSched(p.Cfg.SchedSeed)
	st.Sched = sc
	var got []diffEvent
	var derr error
	bo := Bubble(t, 0, func(mainDone *bool) {
		done := make(chan struct{})
		go func() {
			defer close(done)
			got, derr = runDiff(st, st, s2, s1)
			*mainDone = true
		}()
		sc.Run(done)
	})
	st.Sched = nil
	res.stat("sim_steps", float64(sc.Steps))
	res.hashOf(fmt.Sprintf("sched:%x", sc.Hash()))
	if bubbleProblems(res, bo, "diff") {
		return
	}
	if fired := st.FaultsFired(); fired > 0 {
		res.fault("store_error", fired)
		res.probe("error_hit_differ", 1)
		if derr == nil {
			res.Violate("error-swallowed", "a store read failed inside the differ but no error was reported (%d events delivered)", len(got))
		}
		res.Nontrivial = true
		return
	}
	if derr != nil {
		res.Violate("diff-error", "diff failed without a fault: %v", derr)
		return
	}
	if len(got) != len(want) {
		res.Violate("outcome-differs", "scheduled diff yields %d events, sequential %d", len(got), len(want))
		return
	}
	wm := map[string]string{}
	for _, e := range want {
		wm[e.PK] = e.Kind + e.Sum + e.Old
	}
	for _, e := range got {
		if wm[e.PK] != e.Kind+e.Sum+e.Old {
			res.Violate("outcome-differs", "scheduled diff event for key hash %x differs from the sequential run", e.PK)
			return
		}
	}
	res.Nontrivial = len(want) > 0 && p.Synth.N > 255
}

// execC16Merge: merge.Merger (differs, merger, collector goroutines; reads not
// parked during phase 1) followed by SortedBlocks -> IngestTableFromBlocks with
// workers under the scheduler; optional injected read error.
func execC16Merge(t *testing.T, p *C16Plan, res *Result) {
	cols, pk, rows := p.Synth.Build()
	for _, e := range append(append(append([]Edit{}, p.Edits...), p.Edits2...), p.Edits3...) {
		if e.Op != "setcell" && e.Op != "delrow" && e.Op != "addrow" {
			res.Invalid("row-level edits only")
			return
		}
	}
	_, _, r1 := ApplyEdits(cols, pk, rows, p.Edits)
	_, _, r2 := ApplyEdits(cols, pk, rows, p.Edits2)
	r1, r2 = DedupeByKey(cols, pk, r1), DedupeByKey(cols, pk, r2)
	w := &World{}
	st := NewStore("L", w)
	base, e0 := ingestPlain(t, st, cols, pk, rows)
	b1, e1 := ingestPlain(t, st, cols, pk, r1)
	b2, e2 := ingestPlain(t, st, cols, pk, r2)
	if e0 != nil || e1 != nil || e2 != nil {
		res.Invalid("ingest: %v %v %v", e0, e1, e2)
		return
	}
	others := [][]byte{b1, b2}
	var want [][]string
	if len(p.Edits3) > 0 {
		_, _, r3 := ApplyEdits(cols, pk, rows, p.Edits3)
		r3 = DedupeByKey(cols, pk, r3)
		b3, e3 := ingestPlain(t, st, cols, pk, r3)
		if e3 != nil {
			res.Invalid("ingest: %v", e3)
			return
		}
		all := [][]byte{b1, b2, b3}
		if len(p.Order) != 3 {
			p.Order = []int{0, 1, 2}
		}
		seenO := map[int]bool{}
		others = nil
		for _, o := range p.Order {
			if o < 0 || o > 2 || seenO[o] {
				res.Invalid("order")
				return
			}
			seenO[o] = true
			others = append(others, all[o])
		}
		// the three branches touch different rows and add different keys: the result is the union of their changes
		okModel := true
		touched := map[int]int{}
		addKeys := map[string]bool{}
		pkIdx, _ := pkIndices(cols, pk)
		for _, e := range append(append(append([]Edit{}, p.Edits...), p.Edits2...), p.Edits3...) {
			switch e.Op {
			case "setcell":
				touched[e.Row]++
			case "addrow":
				if len(e.Cells) != len(cols) || addKeys[keyStr(keyOf(e.Cells, pkIdx))] {
					okModel = false
				}
				if okModel {
					addKeys[keyStr(keyOf(e.Cells, pkIdx))] = true
				}
			default:
				okModel = false
			}
		}
		perBranch := map[int]int{}
		for bi, es := range [][]Edit{p.Edits, p.Edits2, p.Edits3} {
			for _, e := range es {
				if e.Op == "setcell" {
					if prev, ok := perBranch[e.Row]; ok && prev != bi {
						okModel = false
					}
					perBranch[e.Row] = bi
				}
			}
		}
		if okModel {
			_, _, want = ApplyEdits(cols, pk, rows, append(append(append([]Edit{}, p.Edits...), p.Edits2...), p.Edits3...))
			want = DedupeByKey(cols, pk, want)
		}
		res.probe("three_branch_merge", 1)
	}
	// reference: 1 worker, unscheduled, fault-free
	var ref *mergeOutcome
	var rerr error
	bo := Bubble(t, 0, func(mainDone *bool) {
		ref, rerr = runMerge(t, st, base, others, 0, "blocks", 1)
		*mainDone = true
	})
	if bubbleProblems(res, bo, "reference merge") {
		return
	}
	if rerr != nil {
		res.Violate("merge-error", "fault-free merge failed: %v", rerr)
		return
	}
	st.Faults = p.Faults
	sc := NewSched(p.Cfg.SchedSeed)
	st.Sched = sc
	var out *mergeOutcome
	var merr error
	bo = Bubble(t, 0, func(mainDone *bool) {
		done := make(chan struct{})
		go func() {
			defer close(done)
			out, merr = runMerge(t, st, base, others, 0, "blocks", p.Cfg.Workers, p.Consumer)
			*mainDone = true
		}()
		sc.Run(done)
	})
	st.Sched = nil
	res.stat("sim_steps", float64(sc.Steps))
	res.hashOf(fmt.Sprintf("sched:%x", sc.Hash()))
	if bubbleProblems(res, bo, "merge") {
		return
	}
	if fired := st.FaultsFired(); fired > 0 {
		res.fault("store_error", fired)
		res.probe("error_hit_merge", 1)
		if merr == nil {
			res.Violate("error-swallowed", "a store read failed during the merge but it reported success")
		}
		res.Nontrivial = true
		return
	}
	if merr != nil {
		res.Violate("merge-error", "merge failed without a fault: %v", merr)
		return
	}
	if !bytes.Equal(out.TableSum, ref.TableSum) {
		res.Violate("outcome-differs", "merge result table %x with %d workers under schedule differs from the sequential result %x", out.TableSum, p.Cfg.Workers, ref.TableSum)
		return
	}
	if len(out.Conflicts) != len(ref.Conflicts) {
		res.Violate("outcome-differs", "%d conflicts vs %d sequentially", len(out.Conflicts), len(ref.Conflicts))
		return
	}
	if want != nil && len(pk) > 0 {
		// both runs let the Go runtime order the differ goroutines: also compare with what the branches add up to
		tbl, got, err := ReadTableRaw(st, out.TableSum)
		if err != nil {
			res.Violate("table-unreadable", "%v", err)
			return
		}
		if len(out.Conflicts) > 0 {
			res.Violate("outcome-differs", "three branches with changes to different rows: %d conflicts reported", len(out.Conflicts))
			return
		}
		pkIdx, _ := pkIndices(cols, pk)
		exp := IngestModel(cols, NormaliseCSV(cols, want), pkIdx)
		byName := make([][]string, len(got))
		for i, r := range got {
			byName[i] = make([]string, len(cols))
			for j, c := range cols {
				for x, tc := range tbl.Columns {
					if tc == c {
						byName[i][j] = r[x]
					}
				}
			}
		}
		tpk := make([]uint32, len(pkIdx))
		for i, u := range pkIdx {
			tpk[i] = uint32(u)
		}
		if c, d := exp.Compare(cols, tpk, byName); c != "" {
			res.Violate("outcome-differs", "merge of three branches (listed in order %v) is not the union of their changes: %s: %s", p.Order, c, d)
			return
		}
	}
	res.Nontrivial = true
}
