package sim

// C16: concurrent pipelines under the parking scheduler with the race detector
// (race binary, one case per OS process). Verdicts: data race (read by the
// parent from the race log), outcome vs 1-worker canonical run, deadlock,
// panic, error propagation.

import (
	"bytes"
	"encoding/json"
	"fmt"
	"testing"
)

type SynthSpec struct {
	N     int    `json:"n"`
	NCols int    `json:"ncols"`
	Seed  uint64 `json:"seed"`
	Dups  int    `json:"dups"` // every Dups-th row repeats an earlier key (0 = none)
}

func (s SynthSpec) Build() (cols []string, pk []string, rows [][]string) {
	r := NewRand(s.Seed)
	nc := s.NCols
	if nc < 1 {
		nc = 1
	}
	cols = make([]string, nc)
	for i := range cols {
		cols[i] = fmt.Sprintf("c%d", i)
	}
	cols[0] = "id"
	pk = []string{"id"}
	perm := r.Perm(s.N)
	rows = make([][]string, s.N)
	for i := 0; i < s.N; i++ {
		row := make([]string, nc)
		id := perm[i]
		if s.Dups > 0 && i > 0 && i%s.Dups == 0 {
			id = perm[r.Intn(i)]
		}
		row[0] = fmt.Sprintf("%06d", id)
		for j := 1; j < nc; j++ {
			row[j] = fmt.Sprintf("v%d_%d", r.Intn(50), j)
		}
		rows[i] = row
	}
	return
}

type C16Plan struct {
	Kind   string    `json:"kind"` // ingest | diff | merge
	Synth  SynthSpec `json:"synth"`
	Cfg    IngestCfg `json:"cfg"`
	Faults []*Fault  `json:"faults,omitempty"`
	// diff/merge specifics
	Edits []Edit `json:"edits,omitempty"`
}

func init() {
	Register(&Profile{
		ID: "C16", Prop: "C16", Race: true,
		Rule: "one OS process per case under -race: synthetic multi-block table x worker count 3..16 x run size x store-op schedule seed x 0-2 injected store errors; non-trivial = >=2 effective workers and >=2 blocks; distinct by plan hash",
		Gen: func(seed uint64, tier string) any {
			r := NewRand(seed)
			maxBlocks := 6
			if tier == "thorough" {
				maxBlocks = 40
			}
			p := C16Plan{Kind: "ingest"}
			p.Synth = SynthSpec{N: r.Range(1, maxBlocks*255), NCols: r.Range(1, 4), Seed: r.Uint64(), Dups: Pick(r, []int{0, 0, 7, 100})}
			if r.Chance(0.3) {
				p.Synth.N = Pick(r, []int{255, 256, 510, 511, 765, 1020})
			}
			p.Cfg = IngestCfg{Delim: ",", RunSize: Pick(r, []uint64{0, 0, 2048, 20000}), Workers: r.Range(3, 16), SchedSeed: r.Uint64()}
			if r.Chance(0.35) {
				nf := r.Range(1, 2)
				for i := 0; i < nf; i++ {
					p.Faults = append(p.Faults, &Fault{Op: Pick(r, []string{"set", "set", "write", "any"}), Prefix: Pick(r, []string{"", "blk/", "blkidx/", "tbl/", "tblidx/"}), Nth: r.Range(1, 6)})
				}
			}
			return p
		},
		Exec: execC16,
	})
}

func execC16(t *testing.T, raw json.RawMessage, res *Result) {
	var p C16Plan
	if err := json.Unmarshal(raw, &p); err != nil {
		res.Invalid("plan: %v", err)
		return
	}
	if p.Synth.N < 0 || p.Synth.N > 200000 || p.Synth.NCols > 16 || p.Cfg.Workers < 0 || p.Cfg.Workers > 64 {
		res.Invalid("plan out of range")
		return
	}
	switch p.Kind {
	case "ingest", "":
		execC16Ingest(t, &p, res)
	case "diff":
		execC16Diff(t, &p, res)
	case "merge":
		execC16Merge(t, &p, res)
	default:
		res.Invalid("unknown kind")
	}
}

func execC16Ingest(t *testing.T, p *C16Plan, res *Result) {
	cols, pk, rows := p.Synth.Build()
	text := CSVText(cols, rows, ',')
	// reference: one worker, canonical schedule, fault-free
	w0 := &World{}
	ref := NewStore("ref", w0)
	r0 := RunIngest(t, ref, text, pk, IngestCfg{Delim: ",", RunSize: p.Cfg.RunSize, Workers: 1, Policy: "fifo"})
	if bubbleProblems(res, r0.Out, "reference ingest") {
		return
	}
	if r0.Err != nil {
		res.Violate("ingest-error", "1-worker ingest failed: %v", r0.Err)
		return
	}
	w := &World{}
	st := NewStore("L", w)
	st.Faults = p.Faults
	run := RunIngest(t, st, text, pk, p.Cfg)
	res.stat("sim_steps", float64(run.Sched.Steps+r0.Sched.Steps))
	res.stat("sched_choices", float64(run.Sched.Choices))
	res.stat("max_pending", float64(run.Sched.MaxPend))
	res.hashOf(fmt.Sprintf("sched:%x", run.Sched.Hash()))
	if bubbleProblems(res, run.Out, "ingest") {
		return
	}
	fired := st.FaultsFired()
	if fired > 0 {
		res.fault("store_error", fired)
		if run.Sched.MaxPend >= 2 {
			res.probe("error_while_others_parked", 1)
		}
		if run.Err == nil {
			res.Violate("error-swallowed", "%d injected store errors but ingest returned success (sum %x)", fired, run.Sum)
		}
		res.Nontrivial = true
		return
	}
	if run.Err != nil {
		res.Violate("ingest-error", "ingest failed without a fault: %v", run.Err)
		return
	}
	if !bytes.Equal(run.Sum, r0.Sum) {
		c, d := CheckTable(st, run.Sum)
		res.Violate("outcome-differs", "table id %x with %d workers differs from 1-worker id %x (%s %s)", run.Sum, p.Cfg.Workers, r0.Sum, c, d)
		return
	}
	if c, d := CheckTable(st, run.Sum); c != "" {
		res.Violate("c03-"+c, "%s", d)
		return
	}
	nblocks := (p.Synth.N + 254) / 255
	eff := p.Cfg.Workers - 2
	if eff >= 2 && nblocks >= 2 {
		res.Nontrivial = true
		res.probe("multi_worker_multi_block", 1)
	}
	if run.Sched.MaxPend >= 2 {
		res.probe("overlapping_store_ops", 1)
	}
}

func execC16Diff(t *testing.T, p *C16Plan, res *Result)  { res.Invalid("not built") }
func execC16Merge(t *testing.T, p *C16Plan, res *Result) { res.Invalid("not built") }
