package sim

import (
	"fmt"
	"sort"
)

// Edit scripts derive one table from another (C04 diff pairs, C05 branches).
type Edit struct {
	Op    string   `json:"op"` // setcell | delrow | addrow | addcol | delcol | renamecol | movecol
	Row   int      `json:"row,omitempty"`
	Col   int      `json:"col,omitempty"`
	Val   string   `json:"val,omitempty"`
	Cells []string `json:"cells,omitempty"`
	Name  string   `json:"name,omitempty"`
	To    int      `json:"to,omitempty"`
}

type EditSpec struct {
	Edits []Edit `json:"edits,omitempty"`
}

// ApplyEdits returns a new table (cols, pk names, rows). Indices refer to the
// table as it is when the edit is applied; out-of-range edits are skipped.
func ApplyEdits(cols []string, pk []string, rows [][]string, edits []Edit) ([]string, []string, [][]string) {
	c := append([]string(nil), cols...)
	rs := make([][]string, len(rows))
	for i, r := range rows {
		rs[i] = append([]string(nil), r...)
	}
	isPK := func(name string) bool {
		for _, p := range pk {
			if p == name {
				return true
			}
		}
		return false
	}
	for _, e := range edits {
		switch e.Op {
		case "setcell":
			if e.Row >= 0 && e.Row < len(rs) && e.Col >= 0 && e.Col < len(c) {
				rs[e.Row][e.Col] = ToBytes(ExpandCell(e.Val))
			}
		case "delrow":
			if e.Row >= 0 && e.Row < len(rs) {
				rs = append(rs[:e.Row:e.Row], rs[e.Row+1:]...)
			}
		case "addrow":
			if len(e.Cells) == len(c) {
				row := make([]string, len(c))
				for j, s := range e.Cells {
					row[j] = ToBytes(ExpandCell(s))
				}
				rs = append(rs, row)
			}
		case "addcol":
			dup := e.Name == ""
			for _, x := range c {
				if x == e.Name {
					dup = true
				}
			}
			if dup || e.To < 0 || e.To > len(c) {
				continue
			}
			c = append(c[:e.To:e.To], append([]string{e.Name}, c[e.To:]...)...)
			for i := range rs {
				v := fmt.Sprintf("%s%d", ToBytes(e.Val), i%3)
				rs[i] = append(rs[i][:e.To:e.To], append([]string{v}, rs[i][e.To:]...)...)
			}
		case "delcol":
			if e.Col >= 0 && e.Col < len(c) && !isPK(c[e.Col]) && len(c) > 1 {
				c = append(c[:e.Col:e.Col], c[e.Col+1:]...)
				for i := range rs {
					rs[i] = append(rs[i][:e.Col:e.Col], rs[i][e.Col+1:]...)
				}
			}
		case "renamecol":
			if e.Col >= 0 && e.Col < len(c) && !isPK(c[e.Col]) && e.Name != "" {
				dup := false
				for _, x := range c {
					if x == e.Name {
						dup = true
					}
				}
				if !dup {
					c[e.Col] = e.Name
				}
			}
		case "movecol":
			if e.Col >= 0 && e.Col < len(c) && e.To >= 0 && e.To < len(c) && e.Col != e.To {
				name := c[e.Col]
				c = append(c[:e.Col:e.Col], c[e.Col+1:]...)
				c = append(c[:e.To:e.To], append([]string{name}, c[e.To:]...)...)
				for i := range rs {
					v := rs[i][e.Col]
					r := append(rs[i][:e.Col:e.Col], rs[i][e.Col+1:]...)
					rs[i] = append(r[:e.To:e.To], append([]string{v}, r[e.To:]...)...)
				}
			}
		}
	}
	return c, pk, rs
}

// DedupeByKey keeps the first row per key (edit scripts may create duplicates).
func DedupeByKey(cols, pk []string, rows [][]string) [][]string {
	idx, err := pkIndices(cols, pk)
	if err != nil {
		return rows
	}
	seen := map[string]bool{}
	out := rows[:0:0]
	for _, r := range rows {
		k := keyStr(keyOf(r, idx))
		if seen[k] {
			continue
		}
		seen[k] = true
		out = append(out, r)
	}
	return out
}

// withEdgeDuplicates returns rows plus repeated lines of the rows that end or start a
// block in key order (positions 254, 255, 509, 510, ...): ingest drops the duplicates.
func withEdgeDuplicates(cols, pk []string, rows [][]string) [][]string {
	pkIdx, _ := pkIndices(cols, pk)
	order := make([]int, len(rows))
	for i := range order {
		order[i] = i
	}
	sort.SliceStable(order, func(a, b int) bool { return lessKey(keyOf(rows[order[a]], pkIdx), keyOf(rows[order[b]], pkIdx)) })
	input := append([][]string(nil), rows...)
	for _, pos := range []int{254, 255, 509, 510, 764, 765} {
		if pos < len(order) {
			dup := append([]string(nil), rows[order[pos]]...)
			if pos%2 == 0 {
				input = append(input, dup)
			} else {
				input = append([][]string{dup}, input...)
			}
		}
	}
	return input
}
