package sim

// C14: transaction commit / discard under crash and error enumeration, plus
// double-commit and discard-after-commit sequences (in-process CLI).

import (
	"bytes"
	"encoding/json"
	"fmt"
	"path/filepath"
	"strings"
	"testing"
	"time"

	"github.com/google/uuid"
	"github.com/wrgl/wrgl/pkg/objects"
	"github.com/wrgl/wrgl/pkg/ref"
)

type C14Plan struct {
	Base     SynthSpec `json:"base"`
	Branches int       `json:"branches"` // staged branches 1..4
	Existing []bool    `json:"existing"` // per branch: does it exist before the transaction
	Op       string    `json:"op"`       // commit | discard
	// MovedBefore: between staging and `transaction commit|discard` an ordinary commit lands on staged branch
	// MovedBranch: "other" data (the staged commit's parent is then no longer the head) or the "same" data that is staged
	MovedBefore string `json:"moved_before,omitempty"`
	MovedBranch int    `json:"moved_branch,omitempty"`
	Between     bool   `json:"between,omitempty"` // an ordinary commit lands on an already-moved branch between the interrupted run and the re-run
	Mode        string `json:"mode"`              // crash | error | sequence
	UUIDSeed    uint64 `json:"uuid_seed"`
}

func init() {
	Register(&Profile{
		ID: "C14", Prop: "C14",
		Rule: "transaction staging 1..4 branches (new and existing) via `wrgl commit --txid`; `wrgl transaction commit|discard` with a crash after every write prefix and a failure at every object-store / ref-store write, re-run afterwards; sequences commit;commit and commit;discard; oracle: all-or-nothing-or-completable, no branch two commits ahead, per-branch reflog entry tagged with the transaction, committed status kept; non-trivial = >=2 staged branches; distinct by plan hash",
		Gen: func(seed uint64, tier string) any {
			r := NewRand(seed)
			p := C14Plan{Branches: r.Range(1, 4), Op: Pick(r, []string{"commit", "commit", "discard"}), Mode: Pick(r, []string{"crash", "error", "sequence", "sqlerror"}), UUIDSeed: r.Uint64()}
			p.Base = SynthSpec{N: Pick(r, []int{1, 3, 8, 30, 260}), NCols: r.Range(2, 3), Seed: r.Uint64()}
			for i := 0; i < p.Branches; i++ {
				p.Existing = append(p.Existing, r.Chance(0.6))
			}
			p.Between = p.Op == "commit" && p.Branches >= 2 && r.Chance(0.3)
			if r.Chance(0.25) {
				p.MovedBefore, p.MovedBranch = Pick(r, []string{"other", "same"}), r.Intn(p.Branches)
			}
			return p
		},
		Exec: execC14,
	})
}

type txBranchView struct {
	Head    []byte
	Commits int // number of commits between head and oldHead (following first parents); -1 if oldHead not reached
	Table   []byte
	Message string
	TxLogs  int // reflog entries of heads/<b> tagged with the transaction
}

func execC14(t *testing.T, raw json.RawMessage, res *Result) {
	var p C14Plan
	if err := json.Unmarshal(raw, &p); err != nil {
		res.Invalid("plan: %v", err)
		return
	}
	if p.Branches < 1 || p.Branches > 6 || p.Base.N < 1 || p.Base.N > 1000 || p.Base.NCols < 2 || p.Base.NCols > 6 ||
		(p.Op != "commit" && p.Op != "discard") || (p.Mode != "crash" && p.Mode != "error" && p.Mode != "sequence" && p.Mode != "sqlerror") {
		res.Invalid("plan out of range")
		return
	}
	uuid.SetRand(NewRand(p.UUIDSeed))
	defer uuid.SetRand(nil)
	cols, pk, rows := p.Base.Build()
	w := &World{}
	n, err := NewNode(t, "L", w)
	if err != nil {
		res.Invalid("node: %v", err)
		return
	}
	defer n.Close()
	run := func(args ...string) CLIResult {
		n.Clock += time.Hour
		return n.Run(t, args...)
	}
	must := func(args ...string) (CLIResult, bool) {
		r := run(args...)
		if r.Failed() {
			res.Invalid("pre-state `wrgl %s` failed: %v %v %s", strings.Join(args, " "), r.Err, r.Out.PanicVal, r.Stdout)
			return r, false
		}
		return r, true
	}
	pkArg := strings.Join(pk, ",")
	names := make([]string, p.Branches)
	oldHeads := map[string][]byte{}
	for i := range names {
		names[i] = fmt.Sprintf("br%d", i)
		if i < len(p.Existing) && p.Existing[i] {
			f := n.WriteFile(fmt.Sprintf("old%d.csv", i), CSVText(cols, rows, ','))
			if _, ok := must("commit", names[i], f, "old "+names[i], "-p", pkArg); !ok {
				return
			}
		}
	}
	refs0, _ := n.Refs()
	for _, b := range names {
		oldHeads[b] = refs0["heads/"+b]
	}
	sr, ok := must("transaction", "start")
	if !ok {
		return
	}
	txid := strings.TrimSpace(sr.Stdout)
	id, err := uuid.Parse(txid)
	if err != nil {
		res.Invalid("transaction start printed %q", sr.Stdout)
		return
	}
	stagedTables := map[string][]byte{}
	for i, b := range names {
		_, _, nr := ApplyEdits(cols, pk, rows, []Edit{{Op: "addrow", Cells: txRow(cols, pk, i)}})
		f := n.WriteFile(fmt.Sprintf("new%d.csv", i), CSVText(cols, nr, ','))
		if _, ok := must("commit", b, f, "staged "+b, "-p", pkArg, "--txid", txid); !ok {
			return
		}
	}
	refsS, _ := n.Refs()
	for _, b := range names {
		s, ok := refsS["txs/"+txid+"/"+b]
		if !ok {
			res.Invalid("staged ref for %s missing", b)
			return
		}
		if !bytes.Equal(refsS["heads/"+b], oldHeads[b]) {
			res.Violate("staging-moved-branch", "`wrgl commit --txid` moved branch %s", b)
			return
		}
		cv, _ := n.Objs.Raw("com/" + string(s))
		_, c, err := objects.ReadCommitFrom(bytes.NewReader(cv))
		if err != nil {
			res.Invalid("staged commit: %v", err)
			return
		}
		stagedTables[b] = c.Table
	}
	if p.MovedBefore != "" {
		if p.MovedBranch < 0 || p.MovedBranch >= len(names) || (p.MovedBefore != "other" && p.MovedBefore != "same") {
			res.Invalid("moved_before")
			return
		}
		b := names[p.MovedBranch]
		f := filepath.Join(n.Root, fmt.Sprintf("new%d.csv", p.MovedBranch)) // the staged data
		if p.MovedBefore == "other" {
			_, _, nr := ApplyEdits(cols, pk, rows, []Edit{{Op: "addrow", Cells: txRow(cols, pk, 55)}})
			f = n.WriteFile("moved.csv", CSVText(cols, nr, ','))
		}
		if _, ok := must("commit", b, f, "ordinary commit after staging", "-p", pkArg); !ok {
			return
		}
		rm, _ := n.Refs()
		oldHeads[b] = rm["heads/"+b]
		res.probe("branch_moved_after_staging_"+p.MovedBefore, 1)
	}
	pre := n.Capture()

	view := func(st NodeState) (map[string]txBranchView, string, int, error) {
		f, err := writeTemp(st.RefDB)
		if err != nil {
			return nil, "", 0, err
		}
		defer removeTemp(f)
		db, err := OpenRefDB(f)
		if err != nil {
			return nil, "", 0, err
		}
		defer db.Close()
		refs, err := db.Filter(nil, nil)
		if err != nil {
			return nil, "", 0, err
		}
		status := "absent"
		if tx, err := db.GetTransaction(id); err == nil {
			status = string(tx.Status)
		}
		staged := 0
		for k := range refs {
			if strings.HasPrefix(k, "txs/"+txid+"/") {
				staged++
			}
		}
		out := map[string]txBranchView{}
		for _, b := range names {
			v := txBranchView{Head: refs["heads/"+b], Commits: -1}
			cur := v.Head
			for steps := 0; steps < 10; steps++ {
				if bytes.Equal(cur, oldHeads[b]) {
					v.Commits = steps
					break
				}
				cv, ok := st.Objs["com/"+string(cur)]
				if !ok || cur == nil {
					break
				}
				_, c, err := objects.ReadCommitFrom(bytes.NewReader(cv))
				if err != nil {
					break
				}
				if steps == 0 {
					v.Table, v.Message = c.Table, c.Message
				}
				if len(c.Parents) == 0 {
					cur = nil
				} else {
					cur = c.Parents[0]
				}
			}
			if lr, err := db.LogReader("heads/" + b); err == nil {
				for {
					rl, err := lr.Read()
					if err != nil {
						break
					}
					if rl.Txid != nil && *rl.Txid == id {
						v.TxLogs++
						if !bytes.Equal(rl.NewOID, v.Head) && v.Commits == 1 {
							// the tagged entry must describe the move to the new head
							v.TxLogs += 100
						}
					}
				}
			}
			out[b] = v
		}
		return out, status, staged, nil
	}
	untouched := func(v map[string]txBranchView) string {
		for _, b := range names {
			if v[b].Commits != 0 {
				return b
			}
		}
		return ""
	}
	allCommitted := func(v map[string]txBranchView, status string) string {
		if status != string(ref.TSCommitted) {
			return "transaction status is " + status + ", want committed"
		}
		for _, b := range names {
			x := v[b]
			if x.Commits != 1 {
				return fmt.Sprintf("branch %s is %d commits ahead of its old head, want exactly 1", b, x.Commits)
			}
			if !bytes.Equal(x.Table, stagedTables[b]) {
				return fmt.Sprintf("branch %s does not carry the staged table", b)
			}
			if x.TxLogs != 1 {
				return fmt.Sprintf("branch %s has %d reflog entries tagged with the transaction (want exactly 1 describing the new head)", b, x.TxLogs%100)
			}
		}
		return ""
	}

	opArgs := []string{"transaction", p.Op, txid}
	logStart := w.LogLen()
	r0 := run(opArgs...)
	if bubbleProblems(res, r0.Out, "wrgl transaction "+p.Op) {
		return
	}
	if r0.Err != nil {
		res.Violate("op-failed", "fault-free `wrgl transaction %s` failed: %v", p.Op, r0.Err)
		return
	}
	W := append([]WriteRec(nil), w.Log[logStart:]...)
	m := len(W)
	final := n.Capture()
	fv, fstatus, fstaged, err := view(final)
	if err != nil {
		res.Invalid("view: %v", err)
		return
	}
	if p.Op == "commit" {
		if d := allCommitted(fv, fstatus); d != "" {
			res.Violate("commit-incomplete", "after a fault-free transaction commit: %s", d)
			return
		}
	} else {
		if b := untouched(fv); b != "" {
			res.Violate("discard-touched-branch", "discard changed branch %s", b)
			return
		}
		if fstaged != 0 || fstatus != "absent" {
			res.Violate("discard-incomplete", "after discard: %d staged refs remain, transaction %s", fstaged, fstatus)
			return
		}
	}
	describe := func(k int) string {
		prev, next := "start", "end"
		if k > 0 {
			prev = W[k-1].Op + " " + FmtKey(W[k-1].Key)
		}
		if k < m {
			next = W[k].Op + " " + FmtKey(W[k].Key)
		}
		return fmt.Sprintf("after write %d/%d (between [%s] and [%s])", k, m, prev, next)
	}
	// judge an interrupted/failed state followed by a re-run
	judge := func(when string, st NodeState) bool {
		v, status, _, err := view(st)
		if err != nil {
			res.Violate("refdb-unreadable", "%s: %v", when, err)
			return false
		}
		if p.Op == "discard" {
			if b := untouched(v); b != "" {
				res.Violate("discard-touched-branch", "%s: branch %s changed", when, b)
				return false
			}
		} else {
			for _, b := range names {
				if v[b].Commits > 1 || v[b].Commits < 0 {
					res.Violate("branch-two-ahead", "%s: branch %s is %d commits ahead of its old head", when, b, v[b].Commits)
					return false
				}
			}
		}
		alreadyDone := false
		if p.Op == "commit" && status == string(ref.TSCommitted) {
			alreadyDone = true
		}
		n.Restore(st)
		// somebody commits to a branch the interrupted run had already moved, then the transaction is re-run
		betweenBranch, betweenHead := "", []byte(nil)
		if p.Between && p.Op == "commit" && !alreadyDone {
			for _, b := range names {
				if v[b].Commits == 1 && v[b].TxLogs == 1 {
					betweenBranch = b
					break
				}
			}
			if betweenBranch != "" {
				_, _, nr := ApplyEdits(cols, pk, rows, []Edit{{Op: "addrow", Cells: txRow(cols, pk, 77)}})
				f := n.WriteFile("between.csv", CSVText(cols, nr, ','))
				br := run("commit", betweenBranch, f, "work after the interrupted transaction", "-p", pkArg)
				if br.Failed() {
					res.Invalid("%s: commit between the runs failed: %v %s", when, br.Err, br.Stdout)
					return false
				}
				rb, _ := n.Refs()
				betweenHead = rb["heads/"+betweenBranch]
				res.probe("commit_between_interrupted_run_and_rerun", 1)
				when += fmt.Sprintf(", then an ordinary commit on %s", betweenBranch)
			}
		}
		rr := run(opArgs...)
		if rr.Out.PanicVal != nil || rr.Out.Deadlock {
			res.Violate("rerun-panic", "%s: re-run panicked: %v", when, rr.Out.PanicVal)
			return false
		}
		now := n.Capture()
		v2, status2, staged2, err := view(now)
		if err != nil {
			res.Violate("refdb-unreadable", "%s after re-run: %v", when, err)
			return false
		}
		if betweenBranch != "" {
			x := v2[betweenBranch]
			if !bytes.Equal(x.Head, betweenHead) {
				res.Violate("rerun-recommitted-moved-branch", "%s, then re-run: branch %s had already received the transaction's commit (and a later ordinary commit); the re-run moved it again from %x to %x", when, betweenBranch, betweenHead, x.Head)
				return false
			}
			if x.Commits != 2 || x.TxLogs != 1 {
				res.Violate("rerun-recommitted-moved-branch", "%s, then re-run: branch %s is %d commits ahead of its old head (want 2: the transaction's commit and the later one) with %d reflog entries of the transaction (want 1)", when, betweenBranch, x.Commits, x.TxLogs)
				return false
			}
			// judged: the rest of the transaction must still complete
			x.Commits, x.Table, x.TxLogs = 1, stagedTables[betweenBranch], 1
			v2[betweenBranch] = x
		}
		if p.Op == "commit" {
			if alreadyDone {
				if rr.Err == nil {
					res.Violate("double-commit-accepted", "%s: the transaction was already committed, yet committing it again succeeded", when)
					return false
				}
			} else if rr.Err != nil {
				res.Violate("rerun-failed", "%s: re-running the transaction commit failed: %v", when, rr.Err)
				return false
			}
			if d := allCommitted(v2, status2); d != "" {
				res.Violate("not-completable", "%s, then re-run: %s", when, d)
				return false
			}
		} else {
			if b := untouched(v2); b != "" {
				res.Violate("discard-touched-branch", "%s, then re-run: branch %s changed", when, b)
				return false
			}
			if rr.Err != nil && !(status == "absent") {
				res.Violate("rerun-failed", "%s: re-running discard failed: %v", when, rr.Err)
				return false
			}
			if staged2 != 0 || status2 != "absent" {
				res.Violate("discard-incomplete", "%s, then re-run: %d staged refs remain, transaction %s", when, staged2, status2)
				return false
			}
		}
		return true
	}

	switch p.Mode {
	case "crash":
		for k := 0; k <= m; k++ {
			res.hashOf(fmt.Sprintf("state:%d:%x", k, meowSum(n.StateAt(pre, W, k).RefDB)))
			if !judge("crash "+describe(k), n.StateAt(pre, W, k)) {
				return
			}
		}
		res.fault("crash", m+1)
	case "error":
		nObj, nRef := 0, 0
		for _, r := range W {
			if r.Store == n.Objs.Name {
				nObj++
			} else {
				nRef++
			}
		}
		try := func(isRef bool, j int) bool {
			n.Restore(pre)
			f := &Fault{Op: "write", Nth: j}
			when := fmt.Sprintf("error at object-store write %d/%d", j, nObj)
			if isRef {
				n.Ref.Faults = []*Fault{f}
				when = fmt.Sprintf("error at ref-store write %d/%d", j, nRef)
			} else {
				n.Objs.Faults = []*Fault{f}
			}
			rr := run(opArgs...)
			n.Ref.Faults, n.Objs.Faults = nil, nil
			if rr.Out.PanicVal != nil || rr.Out.Deadlock {
				res.Violate("error-panic", "%s: panicked: %v", when, rr.Out.PanicVal)
				return false
			}
			if f.Fired == 0 {
				return true
			}
			res.fault("write_error", 1)
			if rr.Err == nil {
				res.Violate("error-swallowed", "%s: the command reported success", when)
				return false
			}
			return judge(when, n.Capture())
		}
		for j := 1; j <= nObj; j++ {
			if !try(false, j) {
				return
			}
		}
		for j := 1; j <= nRef; j++ {
			if !try(true, j) {
				return
			}
		}
	case "sqlerror":
		// every SQL statement of the operation fails once (statement-level error inside the
		// ref store: between the statements of one logical ref update)
		n.Restore(pre)
		SQLFault.Arm(0)
		r1 := run(opArgs...)
		nStmt := SQLFault.Count()
		if r1.Err != nil || nStmt == 0 || nStmt > 5000 {
			res.Invalid("statement count run: err=%v statements=%d", r1.Err, nStmt)
			return
		}
		defer SQLFault.Arm(0)
		for j := 1; j <= nStmt; j++ {
			n.Restore(pre)
			firedBefore := SQLFault.Fired
			SQLFault.Arm(j)
			rr := run(opArgs...)
			SQLFault.Arm(0)
			when := fmt.Sprintf("error at SQL statement %d/%d", j, nStmt)
			if rr.Out.PanicVal != nil || rr.Out.Deadlock {
				res.Violate("error-panic", "%s: panicked: %v", when, rr.Out.PanicVal)
				return
			}
			if SQLFault.Fired == firedBefore {
				continue
			}
			res.fault("sql_statement_error", 1)
			if rr.Err == nil {
				// the failed statement was tolerated: then the operation's postcondition must hold in full
				v, status, staged, err := view(n.Capture())
				if err != nil {
					res.Violate("refdb-unreadable", "%s: %v", when, err)
					return
				}
				if p.Op == "commit" {
					if d := allCommitted(v, status); d != "" {
						res.Violate("error-swallowed", "%s: the command reported success but %s", when, d)
						return
					}
				} else if b := untouched(v); b != "" || staged != 0 || status != "absent" {
					res.Violate("error-swallowed", "%s: discard reported success but branch %q changed / %d staged refs remain / transaction %s", when, b, staged, status)
					return
				}
				continue
			}
			if !judge(when, n.Capture()) {
				return
			}
		}
	case "sequence":
		if p.Op != "commit" {
			// discard ; discard and discard ; commit: the second must not touch a branch
			r2 := run("transaction", Pick(NewRand(p.UUIDSeed), []string{"discard", "commit"}), txid)
			if r2.Out.PanicVal != nil {
				res.Violate("rerun-panic", "operation on a discarded transaction panicked: %v", r2.Out.PanicVal)
				return
			}
			v2, _, _, _ := view(n.Capture())
			if b := untouched(v2); b != "" {
				res.Violate("discard-touched-branch", "an operation on a discarded transaction changed branch %s", b)
				return
			}
			break
		}
		second := Pick(NewRand(p.UUIDSeed), []string{"commit", "discard"})
		r2 := run("transaction", second, txid)
		if r2.Out.PanicVal != nil {
			res.Violate("rerun-panic", "`transaction %s` after commit panicked: %v", second, r2.Out.PanicVal)
			return
		}
		if r2.Err == nil {
			res.Violate("double-"+second+"-accepted", "a committed transaction was %s-ed a second time without an error", second)
			return
		}
		v2, status2, _, err := view(n.Capture())
		if err != nil {
			res.Invalid("view: %v", err)
			return
		}
		if d := allCommitted(v2, status2); d != "" {
			res.Violate("committed-state-lost", "after a refused `transaction %s` on a committed transaction: %s", second, d)
			return
		}
		res.probe("sequence_commit_"+second, 1)
	}
	res.stat("sim_steps", float64(w.Steps))
	res.stat("writes_per_op", float64(m))
	res.Nontrivial = p.Branches >= 2
}

func txRow(cols, pk []string, i int) []string {
	pkIdx, _ := pkIndices(cols, pk)
	cells := make([]string, len(cols))
	for j := range cells {
		cells[j] = fmt.Sprintf("tx%d", i)
		if contains(pkIdx, j) {
			cells[j] = fmt.Sprintf("TX%04d", i)
		}
	}
	return cells
}
