package sim

// In-process CLI: each `wrgl` command runs as one simulated process inside its
// own bubble, over the node's simulated object store (hook H1) and the real
// SQL ref store wrapped by SimRef.

import (
	"bytes"
	"fmt"
	"os"
	"path/filepath"
	"sync"
	"testing"
	"time"

	"github.com/spf13/viper"
	"github.com/wrgl/wrgl/cmd/wrgl"
	"github.com/wrgl/wrgl/pkg/local"
	"github.com/wrgl/wrgl/pkg/objects"
	"github.com/wrgl/wrgl/pkg/ref"
)

type Node struct {
	Name    string
	Root    string // working directory
	WrglDir string
	W       *World
	Objs    *Store
	Ref     *SimRef
	Clock   time.Duration // offset of this node's wall clock from the epoch
	Procs   int
}

var (
	nodesMu sync.Mutex
	nodes   = map[string]*Node{}
)

func init() {
	local.VerifOpenObjectsStore = func(dir string) (objects.Store, bool) {
		nodesMu.Lock()
		defer nodesMu.Unlock()
		if n, ok := nodes[filepath.Clean(dir)]; ok {
			return n.Objs, true
		}
		return nil, false
	}
	local.VerifWrapRefStore = func(dir string, s ref.Store) ref.Store {
		nodesMu.Lock()
		defer nodesMu.Unlock()
		if n, ok := nodes[filepath.Clean(dir)]; ok {
			n.Ref.Inner = s
			return n.Ref
		}
		return s
	}
}

// NewNode creates a repository directory and runs `wrgl init` + user config.
func NewNode(t *testing.T, name string, w *World) (*Node, error) {
	root, err := os.MkdirTemp("", "node-"+name+"-")
	if err != nil {
		return nil, err
	}
	n := &Node{Name: name, Root: root, WrglDir: filepath.Join(root, ".wrgl"), W: w}
	n.Objs = NewStore(name, w)
	n.Ref = &SimRef{Name: "ref:" + name, W: w, Path: filepath.Join(n.WrglDir, "sqlite.db")}
	nodesMu.Lock()
	nodes[filepath.Clean(n.WrglDir)] = n
	nodesMu.Unlock()
	for _, args := range [][]string{{"init"}, {"config", "set", "user.email", name + "@sim"}, {"config", "set", "user.name", name}} {
		r := n.Run(t, args...)
		if r.Err != nil || r.Out.PanicVal != nil || r.Out.Deadlock {
			n.Close()
			return nil, fmt.Errorf("wrgl %v: err=%v panic=%v deadlock=%v out=%s", args, r.Err, r.Out.PanicVal, r.Out.Deadlock, r.Stdout)
		}
	}
	return n, nil
}

func (n *Node) Close() {
	nodesMu.Lock()
	delete(nodes, filepath.Clean(n.WrglDir))
	nodesMu.Unlock()
	os.RemoveAll(n.Root)
}

type CLIResult struct {
	Args   []string
	Stdout string
	Err    error
	Out    BubbleOutcome
}

func (r CLIResult) Failed() bool { return r.Err != nil || r.Out.PanicVal != nil || r.Out.Deadlock }

// Run executes one wrgl command as a simulated process on this node.
func (n *Node) Run(t *testing.T, args ...string) CLIResult {
	return n.RunStdin(t, nil, args...)
}

func (n *Node) RunStdin(t *testing.T, stdin []byte, args ...string) CLIResult {
	res := CLIResult{Args: args}
	var buf bytes.Buffer
	n.Procs++
	res.Out = Bubble(t, n.Clock, func(mainDone *bool) {
		prevWD, _ := os.Getwd()
		os.Chdir(n.Root)
		defer os.Chdir(prevWD)
		viper.Set("wrgl_dir", n.WrglDir)
		cmd := wrgl.RootCmd()
		full := append([]string{"--wrgl-dir", n.WrglDir, "--no-progress"}, args...)
		if len(args) > 0 && args[0] == "init" {
			full = append([]string{"--wrgl-dir", n.WrglDir}, args...)
		}
		cmd.SetArgs(full)
		cmd.SetOut(&buf)
		cmd.SetErr(&buf)
		if stdin != nil {
			cmd.SetIn(bytes.NewReader(stdin))
		}
		res.Err = cmd.Execute()
		*mainDone = true
	})
	res.Stdout = buf.String()
	return res
}

// WriteFile writes a file under the node's working directory and returns its path.
func (n *Node) WriteFile(name string, data []byte) string {
	p := filepath.Join(n.Root, name)
	os.WriteFile(p, data, 0644)
	return p
}

// OpenRef opens the node's ref store directly (harness-side reads).
func (n *Node) OpenRef() (*RefDB, error) {
	return OpenRefDB(filepath.Join(n.WrglDir, "sqlite.db"))
}

// Refs returns all refs of the node.
func (n *Node) Refs() (map[string][]byte, error) {
	db, err := n.OpenRef()
	if err != nil {
		return nil, err
	}
	defer db.Close()
	return db.Filter(nil, nil)
}
