package sim

// In-process CLI: each `wrgl` command runs as one simulated process inside its
// own bubble, over the node's simulated object store (hook H1) and the real
// SQL ref store wrapped by SimRef.

import (
	"bytes"
	"fmt"
	"os"
	"path/filepath"
	"sync"
	"testing"
	"time"

	"github.com/spf13/viper"
	"github.com/wrgl/wrgl/cmd/wrgl"
	"github.com/wrgl/wrgl/pkg/local"
	"github.com/wrgl/wrgl/pkg/objects"
	"github.com/wrgl/wrgl/pkg/ref"
)

type Node struct {
	Name    string
	Root    string // working directory
	WrglDir string
	W       *World
	Objs    *Store
	Ref     *SimRef
	Clock   time.Duration // offset of this node's wall clock from the epoch
	Procs   int
	// SchedSeed != 0: run the next processes under the parking scheduler
	SchedSeed uint64
	LastSched *Sched
	// RealBadger: the CLI opens its real Badger store under WrglDir instead of the simulated one
	RealBadger bool
}

var (
	nodesMu sync.Mutex
	nodes   = map[string]*Node{}
)

func init() {
	// every SQL statement of the CLI's ref store passes the simsql wrapper (statement faults)
	local.VerifSQLDriver = "sqlite3_sim"
	local.VerifOpenObjectsStore = func(dir string) (objects.Store, bool) {
		nodesMu.Lock()
		defer nodesMu.Unlock()
		if n, ok := nodes[filepath.Clean(dir)]; ok && !n.RealBadger {
			return n.Objs, true
		}
		return nil, false
	}
	local.VerifWrapRefStore = func(dir string, s ref.Store) ref.Store {
		nodesMu.Lock()
		defer nodesMu.Unlock()
		if n, ok := nodes[filepath.Clean(dir)]; ok {
			n.Ref.Inner = s
			return n.Ref
		}
		return s
	}
}

// NewNode creates a repository directory and runs `wrgl init` + user config.
func NewNode(t *testing.T, name string, w *World) (*Node, error) {
	root, err := os.MkdirTemp("", "node-"+name+"-")
	if err != nil {
		return nil, err
	}
	n := &Node{Name: name, Root: root, WrglDir: filepath.Join(root, ".wrgl"), W: w}
	n.Objs = NewStore(name, w)
	n.Ref = &SimRef{Name: "ref:" + name, W: w, Path: filepath.Join(n.WrglDir, "sqlite.db")}
	nodesMu.Lock()
	nodes[filepath.Clean(n.WrglDir)] = n
	nodesMu.Unlock()
	for _, args := range [][]string{{"init"}, {"config", "set", "user.email", name + "@sim"}, {"config", "set", "user.name", name}} {
		r := n.Run(t, args...)
		if r.Err != nil || r.Out.PanicVal != nil || r.Out.Deadlock {
			n.Close()
			return nil, fmt.Errorf("wrgl %v: err=%v panic=%v deadlock=%v out=%s", args, r.Err, r.Out.PanicVal, r.Out.Deadlock, r.Stdout)
		}
	}
	return n, nil
}

func (n *Node) Close() {
	nodesMu.Lock()
	delete(nodes, filepath.Clean(n.WrglDir))
	nodesMu.Unlock()
	os.RemoveAll(n.Root)
}

type CLIResult struct {
	Args   []string
	Stdout string
	Err    error
	Out    BubbleOutcome
}

func (r CLIResult) Failed() bool { return r.Err != nil || r.Out.PanicVal != nil || r.Out.Deadlock }

// Run executes one wrgl command as a simulated process on this node.
func (n *Node) Run(t *testing.T, args ...string) CLIResult {
	return n.RunStdin(t, nil, args...)
}

func (n *Node) RunStdin(t *testing.T, stdin []byte, args ...string) CLIResult {
	res := CLIResult{Args: args}
	var buf bytes.Buffer
	n.Procs++
	res.Out = Bubble(t, n.Clock, func(mainDone *bool) {
		prevWD, _ := os.Getwd()
		os.Chdir(n.Root)
		defer os.Chdir(prevWD)
		viper.Set("wrgl_dir", n.WrglDir)
		cmd := wrgl.RootCmd()
		full := append([]string{"--wrgl-dir", n.WrglDir, "--no-progress"}, args...)
		if len(args) > 0 && args[0] == "init" {
			full = append([]string{"--wrgl-dir", n.WrglDir}, args...)
		}
		cmd.SetArgs(full)
		cmd.SetOut(&buf)
		cmd.SetErr(&buf)
		if stdin != nil {
			cmd.SetIn(bytes.NewReader(stdin))
		}
		if n.SchedSeed != 0 {
			sc := NewSched(n.SchedSeed + uint64(n.Procs))
			n.Objs.Sched = sc
			n.LastSched = sc
			done := make(chan struct{})
			go func() {
				defer close(done)
				res.Err = cmd.Execute()
				*mainDone = true
			}()
			sc.Run(done)
			n.Objs.Sched = nil
			return
		}
		res.Err = cmd.Execute()
		*mainDone = true
	})
	res.Stdout = buf.String()
	return res
}

// WriteFile writes a file under the node's working directory and returns its path.
func (n *Node) WriteFile(name string, data []byte) string {
	p := filepath.Join(n.Root, name)
	os.WriteFile(p, data, 0644)
	return p
}

// OpenRef opens the node's ref store directly (harness-side reads).
func (n *Node) OpenRef() (*RefDB, error) {
	return OpenRefDB(filepath.Join(n.WrglDir, "sqlite.db"))
}

// Refs returns all refs of the node.
func (n *Node) Refs() (map[string][]byte, error) {
	db, err := n.OpenRef()
	if err != nil {
		return nil, err
	}
	defer db.Close()
	return db.Filter(nil, nil)
}

// ---- node state capture / restore (crash-state materialisation) ----

type NodeState struct {
	Objs   map[string][]byte
	RefDB  []byte
	Config []byte
}

func (n *Node) Capture() NodeState {
	st := NodeState{Objs: n.Objs.Snapshot()}
	st.RefDB, _ = os.ReadFile(filepath.Join(n.WrglDir, "sqlite.db"))
	st.Config, _ = os.ReadFile(filepath.Join(n.WrglDir, "config.yaml"))
	return st
}

func (n *Node) Restore(st NodeState) {
	n.Objs.Restore(st.Objs)
	os.Remove(filepath.Join(n.WrglDir, "sqlite.db-journal"))
	os.Remove(filepath.Join(n.WrglDir, "sqlite.db-wal"))
	os.Remove(filepath.Join(n.WrglDir, "sqlite.db-shm"))
	os.WriteFile(filepath.Join(n.WrglDir, "sqlite.db"), st.RefDB, 0644)
	if st.Config != nil {
		os.WriteFile(filepath.Join(n.WrglDir, "config.yaml"), st.Config, 0644)
	} else {
		os.Remove(filepath.Join(n.WrglDir, "config.yaml"))
	}
}

// StateAt returns the durable state after the first k writes of log (the log
// slice holds the writes of one operation started from pre).
func (n *Node) StateAt(pre NodeState, log []WriteRec, k int) NodeState {
	st := NodeState{Objs: map[string][]byte{}, RefDB: pre.RefDB, Config: pre.Config}
	for key, v := range pre.Objs {
		st.Objs[key] = v
	}
	ApplyLog(st.Objs, n.Objs.Name, log[:k])
	for _, r := range log[:k] {
		if r.Store == n.Ref.Name && r.Op == "refsnap" {
			st.RefDB = r.Val
		}
	}
	return st
}

// RefsOf reads all refs out of a captured ref database.
func RefsOf(refDB []byte) (map[string][]byte, error) {
	f, err := os.CreateTemp("", "refdb-*")
	if err != nil {
		return nil, err
	}
	name := f.Name()
	f.Write(refDB)
	f.Close()
	defer os.Remove(name)
	db, err := OpenRefDB(name)
	if err != nil {
		return nil, err
	}
	defer db.Close()
	return db.Filter(nil, nil)
}

func writeTemp(b []byte) (string, error) {
	f, err := os.CreateTemp("", "tmpdb-*")
	if err != nil {
		return "", err
	}
	f.Write(b)
	f.Close()
	return f.Name(), nil
}

func removeTemp(name string) {
	os.Remove(name)
	os.Remove(name + "-journal")
}
