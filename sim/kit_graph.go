package sim

import (
	"bytes"
	"fmt"
	"time"

	"github.com/wrgl/wrgl/pkg/objects"
)

// GraphSpec is a commit DAG: node i's parents have smaller indices.
type GraphSpec struct {
	Parents [][]int `json:"parents"`
	Times   []int64 `json:"times"` // seconds after 2000-01-01; adversarial
	Zones   []int   `json:"zones,omitempty"` // per commit (cyclic): the author's zone offset in minutes (commits record the zone; a commit re-encoded on its way must keep its bytes)
}

func (g *GraphSpec) N() int { return len(g.Parents) }

func (g *GraphSpec) Validate() error {
	if len(g.Times) != 0 && len(g.Times) != len(g.Parents) {
		return fmt.Errorf("times/parents length mismatch")
	}
	for _, z := range g.Zones {
		if z < -14*60 || z > 14*60 {
			return fmt.Errorf("zone out of range")
		}
	}
	if len(g.Parents) > 400 {
		return fmt.Errorf("graph too large")
	}
	for i, ps := range g.Parents {
		seen := map[int]bool{}
		if len(ps) > 8 {
			return fmt.Errorf("too many parents")
		}
		for _, p := range ps {
			// a parent may be listed twice (`wrgl merge main topic topic` writes such a commit)
			if p < 0 || p >= i {
				return fmt.Errorf("node %d: bad parent %d", i, p)
			}
			seen[p] = true
		}
	}
	return nil
}

// GenGraph draws a DAG with n nodes and a timestamp regime.
func GenGraph(r *Rand, n int) GraphSpec {
	g := GraphSpec{Parents: make([][]int, n), Times: make([]int64, n)}
	shape := r.Intn(6) // 0 mixed, 1 linear-ish, 2 bushy, 3 diamonds, 4 multi-root, 5 ladder
	for i := 1; i < n; i++ {
		np := 1
		x := r.Intn(100)
		switch shape {
		case 1:
			if x < 5 {
				np = 2
			}
		case 2:
			if x < 45 {
				np = 2
			} else if x < 55 {
				np = 3
			}
		case 4:
			if x < 20 {
				np = 0
			} else if x < 45 {
				np = 2
			}
		default:
			if x < 5 {
				np = 0
			} else if x < 30 {
				np = 2
			} else if x < 34 {
				np = 3
			}
		}
		if shape == 5 {
			// ladder: two commits per level, each with both commits of the level
			// below as parents (the number of paths doubles per level)
			lvl := (i + 1) / 2
			if lvl == 1 {
				g.Parents[i] = []int{0}
			} else {
				g.Parents[i] = []int{2*(lvl-1) - 1, 2 * (lvl - 1)}
			}
			continue
		}
		if shape == 3 {
			// chain of diamonds: a; b,c <- a; d <- b,c; ...
			switch i % 3 {
			case 1, 2:
				g.Parents[i] = []int{i - i%3}
			case 0:
				g.Parents[i] = []int{i - 2, i - 1}
			}
			continue
		}
		if np > i {
			np = i
		}
		seen := map[int]bool{}
		for len(g.Parents[i]) < np {
			var p int
			if r.Chance(0.6) {
				p = i - 1 - r.Intn(min(i, 3))
			} else {
				p = r.Intn(i)
			}
			if !seen[p] {
				seen[p] = true
				g.Parents[i] = append(g.Parents[i], p)
			}
		}
	}
	regime := r.Intn(6)
	for i := 0; i < n; i++ {
		switch regime {
		case 0: // consistent
			g.Times[i] = int64(i * 60)
		case 1: // all equal
			g.Times[i] = 1000
		case 2: // reversed
			g.Times[i] = int64((n - i) * 60)
		case 3: // random
			g.Times[i] = int64(r.Intn(n * 10))
		case 4: // few distinct seconds (ties)
			g.Times[i] = int64(r.Intn(3))
		default: // per-author skew: 3 authors with offsets, one clock jumps backward
			a := r.Intn(3)
			off := []int64{0, 86400, -86400}[a]
			g.Times[i] = int64(i*60) + off
			if a == 2 && r.Chance(0.3) {
				g.Times[i] -= int64(r.Intn(100000))
			}
		}
	}
	return g
}

// Reach returns anc[i] = set of ancestors-or-self of i.
func (g *GraphSpec) Reach() []map[int]bool {
	anc := make([]map[int]bool, g.N())
	for i := range g.Parents {
		anc[i] = map[int]bool{i: true}
		for _, p := range g.Parents[i] {
			for a := range anc[p] {
				anc[i][a] = true
			}
		}
	}
	return anc
}

// Materialise writes commits into st (raw, not counted) and returns their sums.
// tableOf(i) gives the table sum of commit i (nil = random 16 bytes derived from i).
func (g *GraphSpec) Materialise(st *Store, tableOf func(i int) []byte) ([][]byte, error) {
	sums := make([][]byte, g.N())
	for i := range g.Parents {
		c := &objects.Commit{AuthorName: "a", AuthorEmail: "a@x", Message: fmt.Sprintf("c%d", i)}
		if tableOf != nil {
			c.Table = tableOf(i)
		}
		if c.Table == nil {
			c.Table = meowSum([]byte(fmt.Sprintf("table-%d", i)))
		}
		var ts int64
		if len(g.Times) > 0 {
			ts = g.Times[i]
		}
		c.Time = bubbleEpoch.Add(time.Duration(ts) * time.Second)
		if len(g.Zones) > 0 {
			c.Time = c.Time.In(time.FixedZone("", g.Zones[i%len(g.Zones)]*60))
		}
		for _, p := range g.Parents[i] {
			c.Parents = append(c.Parents, sums[p])
		}
		var b bytes.Buffer
		if _, err := c.WriteTo(&b); err != nil {
			return nil, err
		}
		sums[i] = meowSum(b.Bytes())
		st.RawSet("com/"+string(sums[i]), b.Bytes())
	}
	return sums, nil
}
