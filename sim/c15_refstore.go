package sim

// C15: step-by-step conformance of the real refsql.Store (real SQLite file,
// reopen as an operation, statement-level faults) to a map + per-name logs.

import (
	"bytes"
	"encoding/json"
	"errors"
	"fmt"
	"io"
	"os"
	"path/filepath"
	"sort"
	"strings"
	"testing"

	"github.com/google/uuid"
	"github.com/wrgl/wrgl/pkg/ref"
)

type C15Op struct {
	Op    string   `json:"op"`
	A     string   `json:"a,omitempty"`
	B     string   `json:"b,omitempty"`
	P     []string `json:"p,omitempty"`  // prefixes
	NP    []string `json:"np,omitempty"` // not-prefixes
	FailN int      `json:"fail_n,omitempty"`
	N     int      `json:"n,omitempty"`   // setlogburst: number of logged updates of A in a row
	Via   string   `json:"via,omitempty"` // rename / copy: "helper" = through ref.RenameRef / ref.CopyRef (what `wrgl branch --move / --copy` call), which also hand back the value
}

type C15Plan struct {
	Ops []C15Op `json:"ops"`
}

const c15tx1 = "a0b1c2d3-0000-4000-8000-000000000001"
const c15tx2 = "a0b1c2d3-0000-4000-8000-000000000011"

var c15Names = []string{
	"heads/a", "heads/A", "heads/a_b", "heads/axb", "heads/a%", "heads/a/b", "heads/ab", "heads/b",
	"remotes/o/x", "remotes/o/y", "remotes/o_/x", "remotes/oX/x", "remotes/O/x", "remotes/O_/y", "remotes/o%/x", "remotes/ob/x",
	"tags/t", "tags/T", "tags/t_1", "tags/tx1",
	"txs/" + c15tx1 + "/b", "txs/" + c15tx1 + "/c", "txs/" + c15tx2 + "/b",
	"refs/x/y",
	// multi-byte characters: a prefix's length in bytes is not its length in characters
	"remotes/b\u00fcro/x", "remotes/b\u00fcro/y", "remotes/b\u00fc/x", "heads/\u00e9", "heads/\u00e9a", "tags/\u65e5\u672c",
	// characters of four UTF-8 bytes (and U+FFFF) right after a prefix
	"heads/\U0001F680", "heads/a\U0001F680", "remotes/o/\U0001F680x", "tags/t\uffffz", "remotes/\U0001F680/x",
}
var c15Prefixes = []string{"", "heads/", "heads/a", "heads/a_", "heads/a%", "heads/A", "remotes/", "remotes/o/", "remotes/o_/", "remotes/o%/", "remotes/O", "tags/", "tags/t", "tags/t_", "txs/", "txs/" + c15tx1 + "/", "h", "x", "remotes/b\u00fcro/", "remotes/b\u00fc", "heads/\u00e9", "tags/\u65e5"}

// neighbours of the multi-byte characters above: \u00ea \u00eb follow \u00e9, \u65e6 follows \u65e5, \u00fd follows \u00fc,
// U+1F681 follows U+1F680, \u0080 follows DEL
var c15Siblings = []string{"heads/\u00e9", "heads/\u00ea-1", "heads/\u00eb/x", "heads/\u00e9/y", "tags/\u65e5", "tags/\u65e6/v1", "tags/\u65e5\u672c", "remotes/b\u00fd/x", "remotes/b\u00fc/x",
	"remotes/\U0001F681/main", "remotes/\U0001F680/x", "heads/q\u007f", "heads/q\u0080", "heads/q\u007fz"}
var c15SiblingPrefixes = []string{"heads/\u00e9", "tags/\u65e5", "remotes/b\u00fc", "remotes/\U0001F680", "heads/q\u007f", "heads/\u00ea"}
var c15Remotes = []string{"o", "o_", "oX", "O", "O_", "o%", "ob", "zz", "b\u00fcro", "b\u00fc", "\U0001F680"}

func init() {
	Register(&Profile{
		ID: "C15", Prop: "C15",
		Rule: "sequences (<=40 ops) of set / logged set / delete / rename / copy / get / filter / filter-key / log read / list heads,tags,remote refs / delete-all and rename-all remote refs / delete transaction refs / reopen over a hostile name alphabet ('_', '%', case variants, nested, prefixes of one another), on the real SQL store over a real SQLite file, multi-byte names, with SQL failures (a statement, or a row step of a scan, which surfaces only in rows.Err()) injected into mutating methods (atomic), reads and listings (an error or the right answer) and bulk operations (completed by running them again); every return value and a full dump (refs + all logs) compared with a map model after every step; non-trivial = >=8 ops incl. >=1 prefix listing or bulk op and >=1 rename/copy; distinct by plan hash",
		Gen: func(seed uint64, tier string) any {
			r := NewRand(seed)
			n := r.Range(3, 40)
			var p C15Plan
			name := func() string { return Pick(r, c15Names) }
			for i := 0; i < n; i++ {
				x := r.Intn(100)
				var op C15Op
				switch {
				case x < 18:
					op = C15Op{Op: "set", A: name()}
				case x < 38:
					op = C15Op{Op: "setlog", A: name()}
				case x < 45:
					op = C15Op{Op: "del", A: name()}
				case x < 52:
					op = C15Op{Op: "rename", A: name(), B: name()}
					if r.Sub(fmt.Sprintf("via-%d", i)).Chance(0.4) {
						op.Via = "helper"
					}
				case x < 58:
					op = C15Op{Op: "copy", A: name(), B: name()}
					if r.Sub(fmt.Sprintf("via-%d", i)).Chance(0.4) {
						op.Via = "helper"
					}
				case x < 63:
					op = C15Op{Op: "get", A: name()}
				case x < 75:
					op = C15Op{Op: Pick(r, []string{"filter", "filterkey"})}
					for k := r.Range(0, 2); k > 0; k-- {
						op.P = append(op.P, Pick(r, c15Prefixes))
					}
					for k := r.Range(0, 1); k > 0; k-- {
						op.NP = append(op.NP, Pick(r, c15Prefixes[1:]))
					}
				case x < 79:
					op = C15Op{Op: "logread", A: name()}
				case x < 83:
					op = C15Op{Op: Pick(r, []string{"listheads", "listtags"})}
				case x < 87:
					op = C15Op{Op: "listremote", A: Pick(r, c15Remotes)}
				case x < 91:
					op = C15Op{Op: "delallremote", A: Pick(r, c15Remotes)}
				case x < 94:
					op = C15Op{Op: "renameallremote", A: Pick(r, c15Remotes), B: Pick(r, c15Remotes)}
				case x < 97:
					op = C15Op{Op: "deltxrefs", A: Pick(r, []string{c15tx1, c15tx2})}
				default:
					op = C15Op{Op: "reopen"}
				}
				if op.Op == "setlog" && r.Chance(0.06) {
					// a long reflog (readers page through it)
					op = C15Op{Op: "setlogburst", A: op.A, N: Pick(r, []int{99, 100, 101, 102, 199, 200, 201, 250, r.Range(2, 320)})}
				}
				switch op.Op {
				case "set", "setlog", "del", "rename", "copy":
					if r.Chance(0.12) {
						op.FailN = r.Range(1, 5)
					}
				case "listheads", "listtags", "listremote", "filter", "filterkey", "get", "logread", "delallremote", "renameallremote", "deltxrefs":
					// statements and row steps (a scan fails part-way: the error is only in rows.Err())
					if r.Chance(0.2) {
						op.FailN = r.Range(1, 9)
					}
				}
				if rs := r.Sub(fmt.Sprintf("sibling-%d", i)); rs.Chance(0.12) {
					// names whose last character is a neighbouring code point of a prefix's last character
					// (same UTF-8 lead bytes, next continuation byte): a prefix is a string of bytes, not a
					// range of characters. A sub-stream, so that the plans of earlier versions stay as they were.
					switch op.Op {
					case "set", "setlog", "del", "get", "logread":
						op.A = Pick(rs, c15Siblings)
					case "rename", "copy":
						op.B = Pick(rs, c15Siblings)
					case "filter", "filterkey":
						op.P = append(op.P, Pick(rs, c15SiblingPrefixes))
						if rs.Chance(0.3) {
							op.NP = append(op.NP, Pick(rs, c15SiblingPrefixes))
						}
					}
				}
				p.Ops = append(p.Ops, op)
			}
			if rs := r.Sub("siblings-first"); rs.Chance(0.15) {
				// a few siblings exist from the start
				var pre []C15Op
				for k := rs.Range(2, 5); k > 0; k-- {
					pre = append(pre, C15Op{Op: Pick(rs, []string{"set", "setlog"}), A: Pick(rs, c15Siblings)})
				}
				p.Ops = append(pre, p.Ops...)
				if len(p.Ops) > 40 {
					p.Ops = p.Ops[:40]
				}
				p.Ops = append(p.Ops, C15Op{Op: "filterkey", P: []string{Pick(rs, c15SiblingPrefixes)}}, C15Op{Op: "filter", P: []string{Pick(rs, c15SiblingPrefixes)}})
			}
			return p
		},
		Exec: execC15,
	})
}

type c15Log struct {
	Old, New    []byte
	Action, Msg string
	Tx          string // transaction the entry was written under ("" = none)
}

type c15Model struct {
	m    map[string][]byte
	logs map[string][]c15Log
}

func (m *c15Model) clone() *c15Model {
	c := &c15Model{m: map[string][]byte{}, logs: map[string][]c15Log{}}
	for k, v := range m.m {
		c.m[k] = v
	}
	for k, v := range m.logs {
		c.logs[k] = append([]c15Log(nil), v...)
	}
	return c
}

func (m *c15Model) filter(p, np []string) map[string][]byte {
	res := map[string][]byte{}
	for k, v := range m.m {
		ok := len(p) == 0
		for _, pre := range p {
			if strings.HasPrefix(k, pre) {
				ok = true
			}
		}
		for _, pre := range np {
			if strings.HasPrefix(k, pre) {
				ok = false
			}
		}
		if ok {
			res[k] = v
		}
	}
	return res
}

func sortedKeys(m map[string][]byte) []string {
	ks := make([]string, 0, len(m))
	for k := range m {
		ks = append(ks, k)
	}
	sort.Strings(ks)
	return ks
}

func mapsEqual(a, b map[string][]byte) string {
	for k, v := range a {
		w, ok := b[k]
		if !ok {
			return fmt.Sprintf("%q present in store, absent in model", k)
		}
		if !bytes.Equal(v, w) {
			return fmt.Sprintf("%q = %x in store, %x in model", k, v, w)
		}
	}
	for k := range b {
		if _, ok := a[k]; !ok {
			return fmt.Sprintf("%q absent in store, present in model", k)
		}
	}
	return ""
}

func execC15(t *testing.T, raw json.RawMessage, res *Result) {
	var p C15Plan
	if err := json.Unmarshal(raw, &p); err != nil {
		res.Invalid("plan: %v", err)
		return
	}
	if len(p.Ops) > 400 {
		res.Invalid("too many ops")
		return
	}
	dir, err := os.MkdirTemp("", "c15-")
	if err != nil {
		res.Invalid("%v", err)
		return
	}
	defer os.RemoveAll(dir)
	path := filepath.Join(dir, "sqlite.db")
	db, err := OpenRefDB(path)
	if err != nil {
		res.Invalid("open: %v", err)
		return
	}
	defer func() { db.Close() }()
	defer SQLFault.Arm(0)
	if _, err := db.NewTransaction(&ref.Transaction{ID: uuid.MustParse(c15tx1), Status: ref.TSInProgress, Begin: bubbleEpoch}); err != nil {
		res.Invalid("transaction row: %v", err)
		return
	}
	model := &c15Model{m: map[string][]byte{}, logs: map[string][]c15Log{}}
	ctr := 0
	newVal := func() []byte { ctr++; return meowSum([]byte(fmt.Sprintf("v%d", ctr))) }
	listing, bulk, renames, faultsFired := 0, 0, 0, 0

	dump := func(when string) bool {
		got, err := db.Filter(nil, nil)
		if err != nil {
			res.Violate("store-error", "%s: Filter(nil,nil): %v", when, err)
			return false
		}
		if d := mapsEqual(got, model.m); d != "" {
			res.Violate("state-differs", "%s: %s", when, d)
			return false
		}
		for _, name := range c15Names {
			want := model.logs[name]
			lr, err := db.LogReader(name)
			if err != nil {
				if len(want) > 0 {
					res.Violate("log-differs", "%s: LogReader(%q): %v, model has %d entries", when, name, err, len(want))
					return false
				}
				continue
			}
			var got []*ref.Reflog
			for {
				rl, err := lr.Read()
				if errors.Is(err, io.EOF) {
					break
				}
				if err != nil {
					res.Violate("log-differs", "%s: reading log of %q: %v", when, name, err)
					return false
				}
				got = append(got, rl)
				if len(got) > len(want)+5 {
					break
				}
			}
			lr.Close()
			if len(got) != len(want) {
				res.Violate("log-differs", "%s: log of %q has %d entries, model %d", when, name, len(got), len(want))
				return false
			}
			for i, g := range got {
				w := want[len(want)-1-i] // newest first
				gtx := ""
				if g.Txid != nil {
					gtx = g.Txid.String()
				}
				if gtx != w.Tx {
					res.Violate("log-differs", "%s: log of %q entry %d (newest first) carries transaction %q, model %q", when, name, i, gtx, w.Tx)
					return false
				}
				if !bytes.Equal(g.NewOID, w.New) || !bytes.Equal(g.OldOID, w.Old) || g.Action != w.Action || g.Message != w.Msg {
					res.Violate("log-differs", "%s: log of %q entry %d (newest first): old=%x new=%x %s/%s, model old=%x new=%x %s/%s", when, name, i, g.OldOID, g.NewOID, g.Action, g.Message, w.Old, w.New, w.Action, w.Msg)
					return false
				}
			}
		}
		return true
	}

	for i, op := range p.Ops {
		when := fmt.Sprintf("op %d %s(%s,%s)", i, op.Op, op.A, op.B)
		before := model.clone()
		mutating := false
		var opErr error
		if op.FailN > 0 {
			SQLFault.Arm(op.FailN)
		}
		firedBefore := SQLFault.Fired
		// a read may fail because of the injected fault; what it must not do is answer wrongly without an error
		readFault := func(err error) bool {
			if err != nil && SQLFault.Fired > firedBefore {
				res.probe("read_refused_on_sql_failure", 1)
				return true
			}
			return false
		}
		var redo func() error // bulk operations: run again after an injected failure
		switch op.Op {
		case "set":
			mutating = true
			v := newVal()
			opErr = db.Set(op.A, v)
			model.m[op.A] = v
		case "setlog":
			mutating = true
			v := newVal()
			msg := fmt.Sprintf("m%d", ctr)
			var txid *uuid.UUID
			txs := ""
			if ctr%3 == 0 {
				// every third logged set is written under a transaction: the entry carries its id
				id := uuid.MustParse(c15tx1)
				txid, txs = &id, c15tx1
			}
			opErr = ref.SaveRef(db, op.A, v, "au", "au@x", "act", msg, txid)
			model.logs[op.A] = append(model.logs[op.A], c15Log{Old: model.m[op.A], New: v, Action: "act", Msg: msg, Tx: txs})
			model.m[op.A] = v
		case "setlogburst":
			mutating = true
			if op.N < 1 || op.N > 1000 {
				res.Invalid("burst")
				return
			}
			for k := 0; k < op.N && opErr == nil; k++ {
				v := newVal()
				msg := fmt.Sprintf("m%d.%d", ctr, k)
				opErr = ref.SaveRef(db, op.A, v, "au", "au@x", "act", msg, nil)
				if opErr == nil {
					model.logs[op.A] = append(model.logs[op.A], c15Log{Old: model.m[op.A], New: v, Action: "act", Msg: msg})
					model.m[op.A] = v
				}
			}
			res.probe("long_reflog", 1)
		case "del":
			mutating = true
			opErr = db.Delete(op.A)
			delete(model.m, op.A)
			delete(model.logs, op.A)
		case "rename", "copy":
			mutating = true
			renames++
			_, srcOK := model.m[op.A]
			_, dstOK := model.m[op.B]
			var helperSum []byte
			switch {
			case op.Via == "helper" && op.Op == "rename":
				helperSum, opErr = ref.RenameRef(db, op.A, op.B)
			case op.Via == "helper":
				helperSum, opErr = ref.CopyRef(db, op.A, op.B)
			case op.Via != "":
				res.Invalid("via")
				return
			case op.Op == "rename":
				opErr = db.Rename(op.A, op.B)
			default:
				opErr = db.Copy(op.A, op.B)
			}
			if op.Via == "helper" && opErr == nil && srcOK {
				if !bytes.Equal(helperSum, model.m[op.A]) {
					res.Violate("helper-value-wrong", "%s: ref.%sRef returned %x, the ref held %x", when, map[string]string{"rename": "Rename", "copy": "Copy"}[op.Op], helperSum, model.m[op.A])
					return
				}
				res.probe("rename_copy_through_ref_helpers", 1)
			}
			if !srcOK {
				if opErr == nil {
					res.Violate("missing-src-accepted", "%s: source does not exist but the call succeeded", when)
					return
				}
				opErr = nil // expected failure, model unchanged
				model = before
			} else if dstOK && opErr != nil && !errors.Is(opErr, ErrSQLInjected) {
				opErr = nil // refusing to overwrite is acceptable; state must be unchanged
				model = before
			} else {
				model.m[op.B] = model.m[op.A]
				model.logs[op.B] = append([]c15Log(nil), model.logs[op.A]...)
				if len(model.logs[op.B]) == 0 {
					delete(model.logs, op.B)
				}
				if op.Op == "rename" && op.A != op.B {
					delete(model.m, op.A)
					delete(model.logs, op.A)
				}
			}
		case "get":
			v, err := db.Get(op.A)
			if readFault(err) {
				break
			}
			w, ok := model.m[op.A]
			if ok != (err == nil) || (ok && !bytes.Equal(v, w)) {
				res.Violate("get-wrong", "%s: got %x err=%v, model %x present=%v", when, v, err, w, ok)
				return
			}
		case "filter":
			listing++
			got, err := db.Filter(op.P, op.NP)
			if readFault(err) {
				break
			}
			if err != nil {
				res.Violate("store-error", "%s: %v", when, err)
				return
			}
			if d := mapsEqual(got, model.filter(op.P, op.NP)); d != "" {
				res.Violate("filter-wrong", "%s prefixes %q not %q: %s", when, op.P, op.NP, d)
				return
			}
		case "filterkey":
			listing++
			got, err := db.FilterKey(op.P, op.NP)
			if readFault(err) {
				break
			}
			if err != nil {
				res.Violate("store-error", "%s: %v", when, err)
				return
			}
			want := sortedKeys(model.filter(op.P, op.NP))
			if strings.Join(got, "\x00") != strings.Join(want, "\x00") {
				res.Violate("filter-wrong", "%s prefixes %q not %q: got %q want %q", when, op.P, op.NP, got, want)
				return
			}
		case "logread":
			// covered by dump; also exercise ErrKeyNotFound path
			_, err := db.LogReader(op.A)
			if readFault(err) {
				break
			}
			if (err == nil) != (len(model.logs[op.A]) > 0) {
				res.Violate("log-differs", "%s: LogReader err=%v, model has %d entries", when, err, len(model.logs[op.A]))
				return
			}
		case "listheads", "listtags", "listremote":
			listing++
			var got map[string][]byte
			var err error
			var pre string
			switch op.Op {
			case "listheads":
				got, err = ref.ListHeads(db)
				pre = "heads/"
			case "listtags":
				got, err = ref.ListTags(db)
				pre = "tags/"
			default:
				got, err = ref.ListRemoteRefs(db, op.A)
				pre = "remotes/" + op.A + "/"
			}
			if readFault(err) {
				break
			}
			if err != nil {
				res.Violate("store-error", "%s: %v", when, err)
				return
			}
			want := map[string][]byte{}
			for k, v := range model.m {
				if strings.HasPrefix(k, pre) {
					want[k[len(pre):]] = v
				}
			}
			if d := mapsEqual(got, want); d != "" {
				res.Violate("list-wrong", "%s (prefix %q): %s", when, pre, d)
				return
			}
		case "delallremote":
			bulk++
			mutating = true
			redo = func() error { return ref.DeleteAllRemoteRefs(db, op.A) }
			opErr = redo()
			for k := range model.m {
				if strings.HasPrefix(k, "remotes/"+op.A+"/") {
					delete(model.m, k)
					delete(model.logs, k)
				}
			}
		case "renameallremote":
			bulk++
			mutating = true
			// only when no destination exists (otherwise refusal semantics are unspecified)
			clash := false
			for k := range model.m {
				if strings.HasPrefix(k, "remotes/"+op.A+"/") {
					if _, ok := model.m["remotes/"+op.B+"/"+k[len("remotes/"+op.A+"/"):]]; ok {
						clash = true
					}
				}
			}
			if clash || op.A == op.B {
				mutating = false
				break
			}
			redo = func() error { return ref.RenameAllRemoteRefs(db, op.A, op.B) }
			opErr = redo()
			for _, k := range sortedKeys(model.m) {
				if strings.HasPrefix(k, "remotes/"+op.A+"/") {
					nk := "remotes/" + op.B + "/" + k[len("remotes/"+op.A+"/"):]
					model.m[nk] = model.m[k]
					if l := model.logs[k]; len(l) > 0 {
						model.logs[nk] = l
					}
					delete(model.m, k)
					delete(model.logs, k)
				}
			}
		case "deltxrefs":
			bulk++
			mutating = true
			id, err := uuid.Parse(op.A)
			if err != nil {
				res.Invalid("bad uuid")
				return
			}
			redo = func() error { return ref.DeleteTransactionRefs(db, id) }
			opErr = redo()
			for k := range model.m {
				if strings.HasPrefix(k, "txs/"+op.A+"/") {
					delete(model.m, k)
					delete(model.logs, k)
				}
			}
		case "reopen":
			if err := db.Close(); err != nil {
				res.Violate("store-error", "close: %v", err)
				return
			}
			db, err = OpenRefDB(path)
			if err != nil {
				res.Violate("store-error", "reopen: %v", err)
				return
			}
			res.probe("reopen", 1)
		default:
			res.Invalid("bad op %q", op.Op)
			return
		}
		fired := SQLFault.Fired > firedBefore
		SQLFault.Arm(0)
		if mutating {
			if fired {
				faultsFired++
				res.fault("sql_statement_failure", 1)
				if opErr != nil && redo != nil {
					// a bulk operation stopped part-way: running it again without the fault must finish it
					if err := redo(); err != nil {
						res.Violate("bulk-not-completable", "%s failed on an injected SQL failure (%v) and running it again fails: %v", when, opErr, err)
						return
					}
					res.probe("bulk_op_completed_by_rerun", 1)
					if !dump(when + " run again after an injected SQL failure") {
						return
					}
					continue
				}
				if opErr != nil {
					// atomicity: the store must equal the model before the call
					model = before
					if !dump(when + " after injected SQL failure (method must be atomic)") {
						return
					}
					continue
				}
				// the failed statement was a read whose failure the method tolerates
				// (SaveRef's preliminary Get): success is fine if the state is right
			}
			if opErr != nil && !fired {
				res.Violate("store-error", "%s: %v", when, opErr)
				return
			}
		}
		if !dump(when) {
			return
		}
	}
	res.stat("sim_steps", float64(len(p.Ops)))
	res.Nontrivial = len(p.Ops) >= 8 && (listing+bulk) >= 1 && renames >= 1
	if faultsFired > 0 {
		res.probe("atomicity_checked", faultsFired)
	}
}
