package sim

// C11: ancestry queries and merge-base selection vs the graph model, with
// adversarial timestamps (clock skew / ties / reversal as the fault).

import (
	"bytes"
	"encoding/json"
	"errors"
	"fmt"
	"io"
	"strings"
	"sync"
	"testing"
	"time"

	"github.com/wrgl/wrgl/pkg/objects"
	"github.com/wrgl/wrgl/pkg/ref"
)

type C11Plan struct {
	Graph  GraphSpec `json:"graph"`
	Tuples [][]int   `json:"tuples"` // inputs to SeekCommonAncestor
	// Faults: store read errors; each is armed in turn for every query of FaultQ
	Faults []*Fault `json:"faults,omitempty"`
	FaultQ [][]int  `json:"fault_q,omitempty"` // [a,b] IsAncestorOf / [s] walk / [x,y,z..] with a leading -1: SeekCommonAncestor
	// Shared k > 0: two goroutines insert commit k-1 into one queue at the same time
	Shared int `json:"shared,omitempty"`
	// Long: instead of the graph, a history of thousands of commits (what a memory bound on the walk's visited
	// set would need): a chain of N commits with rising timestamps, of which the commits at Ahead carry a
	// timestamp far in the future (an author's clock was wrong), and Extra edges [child, parent] that make such
	// commits reachable along a second path
	Long *C11Long `json:"long,omitempty"`
}

type C11Long struct {
	N     int     `json:"n"`
	Ahead []int   `json:"ahead"`
	Extra [][]int `json:"extra"`
}

func init() {
	Register(&Profile{
		ID: "C11", Prop: "C11",
		Rule: "commit DAG (<=30 nodes: linear, bushy, diamond chains, several roots) x timestamp regime (consistent, all equal, reversed, random, few distinct seconds, per-author skew with backward jumps) ; all ordered pairs for IsAncestorOf, a full walk from every node, sampled 2-4-tuples for SeekCommonAncestor; non-trivial = >=1 merge commit and timestamps not consistent with topology; distinct by plan hash",
		Gen: func(seed uint64, tier string) any {
			r := NewRand(seed)
			n := r.Range(1, 30)
			if r.Chance(0.4) {
				n = r.Range(1, 9)
			}
			g := GenGraph(r.Sub("graph"), n)
			p := C11Plan{Graph: g}
			if seed%200 == 0 {
				rl := r.Sub("long")
				l := &C11Long{N: Pick(rl, []int{4200, 5000, 8300, 9000})}
				for k := rl.Range(1, 4); k > 0; k-- {
					x := rl.Range(1, l.N/3)
					l.Ahead = append(l.Ahead, x)
					// reachable again from far above (the head, or a commit thousands of links later)
					l.Extra = append(l.Extra, []int{Pick(rl, []int{l.N - 1, l.N - 1, min(l.N-1, rl.Range(x+4100, l.N-1))}), x})
				}
				return C11Plan{Long: l}
			}
			if r.Chance(0.12) {
				// a commit that lists one parent twice
				for tries := 0; tries < 5; tries++ {
					i := r.Intn(n)
					if len(g.Parents[i]) > 0 {
						g.Parents[i] = append(g.Parents[i], Pick(r, g.Parents[i]))
						p.Graph = g
						break
					}
				}
			}
			if r.Chance(0.03) {
				p.Shared = 1 + r.Intn(n)
			}
			if r.Chance(0.3) {
				for k := r.Range(1, 3); k > 0; k-- {
					p.Faults = append(p.Faults, &Fault{Op: Pick(r, []string{"get", "get", "get", "exist", "read", "any"}), Prefix: "com/", Nth: r.Range(1, 12)})
				}
				for k := r.Range(3, 10); k > 0; k-- {
					switch r.Intn(3) {
					case 0:
						p.FaultQ = append(p.FaultQ, []int{r.Intn(n), r.Intn(n)})
					case 1:
						p.FaultQ = append(p.FaultQ, []int{r.Intn(n)})
					default:
						q := []int{-1}
						for j := r.Range(2, 3); j > 0; j-- {
							q = append(q, r.Intn(n))
						}
						p.FaultQ = append(p.FaultQ, q)
					}
				}
			}
			nt := 40
			for i := 0; i < nt; i++ {
				k := r.Range(2, 4)
				tp := make([]int, k)
				for j := range tp {
					tp[j] = r.Intn(n)
				}
				p.Tuples = append(p.Tuples, tp)
			}
			return p
		},
		Exec: execC11,
	})
}

func execC11(t *testing.T, raw json.RawMessage, res *Result) {
	var p C11Plan
	if err := json.Unmarshal(raw, &p); err != nil {
		res.Invalid("plan: %v", err)
		return
	}
	if p.Long != nil {
		execC11Long(p.Long, res)
		return
	}
	if err := p.Graph.Validate(); err != nil || p.Graph.N() == 0 || p.Graph.N() > 60 || len(p.Tuples) > 500 {
		res.Invalid("plan: %v", err)
		return
	}
	g := &p.Graph
	n := g.N()
	w := &World{}
	st := NewStore("L", w)
	sums, err := g.Materialise(st, nil)
	if err != nil {
		res.Invalid("materialise: %v", err)
		return
	}
	idx := map[string]int{}
	for i, s := range sums {
		idx[string(s)] = i
	}
	anc := g.Reach()
	budget := int64(64 * (n + 1) * (n + 1))

	// IsAncestorOf on all ordered pairs
	for a := 0; a < n; a++ {
		for b := 0; b < n; b++ {
			before := w.Steps
			ok, err := ref.IsAncestorOf(st, sums[a], sums[b])
			if err != nil {
				res.Violate("ancestor-error", "IsAncestorOf(c%d,c%d): %v", a, b, err)
				return
			}
			if w.Steps-before > budget {
				res.Violate("step-budget", "IsAncestorOf(c%d,c%d) took %d store reads (budget %d for %d commits)", a, b, w.Steps-before, budget, n)
				return
			}
			if ok != anc[b][a] {
				res.Violate("ancestor-wrong", "IsAncestorOf(c%d, c%d)=%v but reachability says %v (parents %v, times %v)", a, b, ok, anc[b][a], g.Parents, g.Times)
				return
			}
		}
	}
	// full walk from every node: each ancestor exactly once
	for s := 0; s < n; s++ {
		q, err := ref.NewCommitsQueue(st, [][]byte{sums[s]})
		if err != nil {
			res.Violate("walk-error", "NewCommitsQueue(c%d): %v", s, err)
			return
		}
		seen := map[int]int{}
		for steps := 0; ; steps++ {
			sum, _, err := q.PopInsertParents()
			if errors.Is(err, io.EOF) {
				break
			}
			if err != nil {
				res.Violate("walk-error", "walk from c%d: %v", s, err)
				return
			}
			seen[idx[string(sum)]]++
			if steps > 4*n+4 {
				res.Violate("walk-wrong", "walk from c%d does not terminate within %d pops", s, steps)
				return
			}
		}
		for a := range anc[s] {
			if seen[a] != 1 {
				res.Violate("walk-wrong", "walk from c%d visited ancestor c%d %d times (parents %v, times %v)", s, a, seen[a], g.Parents, g.Times)
				return
			}
		}
		if len(seen) != len(anc[s]) {
			res.Violate("walk-wrong", "walk from c%d visited %d commits, it has %d ancestors", s, len(seen), len(anc[s]))
			return
		}
	}
	// a walk seeded with several commits (as a walk from all ref heads is; two refs may sit on one commit): the
	// union of their ancestors, each exactly once. Every other one goes through Reset on a used queue.
	var reused *ref.CommitsQueue
	for ti, tp := range p.Tuples {
		if ti >= 16 {
			break
		}
		seeds := make([][]byte, 0, len(tp)+1)
		union := map[int]bool{}
		okT := true
		for _, x := range tp {
			if x < 0 || x >= n {
				okT = false
				break
			}
			seeds = append(seeds, sums[x])
			for a := range anc[x] {
				union[a] = true
			}
		}
		if !okT || len(tp) == 0 {
			continue
		}
		if ti%3 == 0 {
			seeds = append(seeds, sums[tp[0]]) // the same head twice
		}
		var q *ref.CommitsQueue
		var err error
		if ti%2 == 1 && reused != nil {
			q = reused
			err = q.Reset(seeds)
		} else {
			q, err = ref.NewCommitsQueue(st, seeds)
		}
		if err != nil {
			res.Violate("walk-error", "walk seeded with %v: %v", tp, err)
			return
		}
		reused = q
		seen := map[int]int{}
		for steps := 0; ; steps++ {
			sum, _, err := q.PopInsertParents()
			if errors.Is(err, io.EOF) {
				break
			}
			if err != nil {
				res.Violate("walk-error", "walk seeded with %v: %v", tp, err)
				return
			}
			seen[idx[string(sum)]]++
			if steps > 4*n+8 {
				res.Violate("walk-wrong", "walk seeded with %v does not terminate within %d pops", tp, steps)
				return
			}
		}
		for a := range union {
			if seen[a] != 1 {
				res.Violate("walk-wrong", "walk seeded with commits %v (a head may appear twice) visited ancestor c%d %d times (parents %v)", tp, a, seen[a], g.Parents)
				return
			}
		}
		if len(seen) != len(union) {
			res.Violate("walk-wrong", "walk seeded with %v visited %d commits, the seeds have %d ancestors", tp, len(seen), len(union))
			return
		}
		res.probe("multi_seed_walk", 1)
	}
	// one queue fed by two goroutines with the same commit (see c11_shared.go)
	if p.Shared > 0 && p.Shared <= n {
		x := p.Shared - 1
		rv := newRendezvousStore(st, "com/"+string(sums[x]))
		q, err := ref.NewCommitsQueue(rv, nil)
		if err != nil {
			res.Violate("walk-error", "NewCommitsQueue(): %v", err)
			return
		}
		var wg sync.WaitGroup
		errs := make([]error, 2)
		for k := 0; k < 2; k++ {
			wg.Add(1)
			go func(k int) {
				defer wg.Done()
				errs[k] = q.Insert(sums[x])
			}(k)
		}
		wg.Wait()
		if errs[0] != nil || errs[1] != nil {
			res.Violate("walk-error", "Insert(c%d) from two goroutines: %v / %v", x, errs[0], errs[1])
			return
		}
		seen := map[int]int{}
		for steps := 0; steps <= 4*n+8; steps++ {
			sum, _, err := q.PopInsertParents()
			if errors.Is(err, io.EOF) {
				break
			}
			if err != nil {
				res.Violate("walk-error", "walk of the shared queue: %v", err)
				return
			}
			seen[idx[string(sum)]]++
		}
		for a := range anc[x] {
			if seen[a] != 1 {
				res.Violate("walk-wrong", "two goroutines inserted c%d into one queue at the same time (their store reads overlapped: %v); the walk visited ancestor c%d %d times", x, rv.Met, a, seen[a])
				return
			}
		}
		res.probe("queue_shared_by_two_goroutines", 1)
		if rv.Met {
			res.probe("shared_queue_reads_overlapped", 1)
		}
	}
	// merge base
	for _, tp := range p.Tuples {
		if len(tp) < 2 || len(tp) > 4 {
			res.Invalid("tuple size")
			return
		}
		in := make([][]byte, len(tp))
		distinct := map[int]bool{}
		for i, x := range tp {
			if x < 0 || x >= n {
				res.Invalid("tuple index")
				return
			}
			in[i] = sums[x]
			distinct[x] = true
		}
		if len(distinct) != len(tp) {
			continue // repeated inputs are not in the statement's domain
		}
		common := map[int]bool{}
		for a := range anc[tp[0]] {
			all := true
			for _, x := range tp[1:] {
				if !anc[x][a] {
					all = false
				}
			}
			if all {
				common[a] = true
			}
		}
		before := w.Steps
		base, err := ref.SeekCommonAncestor(st, in...)
		if w.Steps-before > budget {
			res.Violate("step-budget", "SeekCommonAncestor%v took %d store reads", tp, w.Steps-before)
			return
		}
		if err != nil {
			if len(common) > 0 {
				res.Violate("base-missing", "SeekCommonAncestor%v: %v, but common ancestors exist: %v (parents %v, times %v)", tp, err, keysOf(common), g.Parents, g.Times)
				return
			}
			res.probe("no_common_ancestor", 1)
			continue
		}
		bi, ok := idx[string(base)]
		if !ok || !common[bi] {
			res.Violate("base-not-common", "SeekCommonAncestor%v = c%d which is not an ancestor-or-self of every input (common: %v; parents %v, times %v)", tp, bi, keysOf(common), g.Parents, g.Times)
			return
		}
		for _, x := range tp {
			if common[x] && bi != x {
				res.Violate("base-not-input", "SeekCommonAncestor%v = c%d although input c%d is an ancestor of all others (parents %v, times %v)", tp, bi, x, g.Parents, g.Times)
				return
			}
		}
	}
	// ---- the same queries with one store read failing: an error, or the right answer
	if len(p.Faults) > 8 || len(p.FaultQ) > 64 {
		res.Invalid("faults")
		return
	}
	for fi, f := range p.Faults {
		for _, q := range p.FaultQ {
			f.seen, f.Fired = 0, 0
			st.Faults = []*Fault{f}
			for _, x := range q {
				if x < -1 || x >= n {
					st.Faults = nil
					res.Invalid("fault query index")
					return
				}
			}
			switch {
			case len(q) == 2 && q[0] >= 0:
				ok, err := ref.IsAncestorOf(st, sums[q[0]], sums[q[1]])
				if err == nil && ok != anc[q[1]][q[0]] {
					st.Faults = nil
					res.Violate("ancestor-wrong-under-read-error", "fault %d (read %d of a commit fails, fired=%d): IsAncestorOf(c%d, c%d)=%v without an error, reachability says %v (parents %v)", fi, f.Nth, f.Fired, q[0], q[1], ok, anc[q[1]][q[0]], g.Parents)
					return
				}
			case len(q) == 1 && q[0] >= 0:
				qu, err := ref.NewCommitsQueue(st, [][]byte{sums[q[0]]})
				if err != nil {
					break
				}
				seen := map[int]int{}
				failed := false
				for steps := 0; steps <= 4*n+4; steps++ {
					sum, _, err := qu.PopInsertParents()
					if errors.Is(err, io.EOF) {
						break
					}
					if err != nil {
						failed = true
						break
					}
					seen[idx[string(sum)]]++
				}
				if !failed {
					for a := range anc[q[0]] {
						if seen[a] != 1 {
							st.Faults = nil
							res.Violate("walk-wrong-under-read-error", "fault %d (read %d of a commit fails, fired=%d): the walk from c%d ended without an error but visited ancestor c%d %d times (parents %v)", fi, f.Nth, f.Fired, q[0], a, seen[a], g.Parents)
							return
						}
					}
				}
			case len(q) >= 3 && q[0] == -1:
				tp := q[1:]
				in := make([][]byte, len(tp))
				distinct := map[int]bool{}
				for i, x := range tp {
					if x < 0 {
						st.Faults = nil
						res.Invalid("fault query index")
						return
					}
					in[i] = sums[x]
					distinct[x] = true
				}
				if len(distinct) != len(tp) {
					break
				}
				common := map[int]bool{}
				for a := range anc[tp[0]] {
					all := true
					for _, x := range tp[1:] {
						if !anc[x][a] {
							all = false
						}
					}
					if all {
						common[a] = true
					}
				}
				base, err := ref.SeekCommonAncestor(st, in...)
				if err == nil {
					if bi, ok := idx[string(base)]; !ok || !common[bi] {
						st.Faults = nil
						res.Violate("base-wrong-under-read-error", "fault %d: SeekCommonAncestor%v = c%d without an error, common ancestors are %v", fi, tp, bi, keysOf(common))
						return
					}
				} else if f.Fired == 0 && len(common) > 0 {
					st.Faults = nil
					res.Violate("base-missing", "SeekCommonAncestor%v: %v", tp, err)
					return
				} else if f.Fired > 0 && len(common) > 0 && !errors.Is(err, ErrInjected) && !strings.Contains(err.Error(), ErrInjected.Error()) {
					// "no common ancestor" although one exists and the only trouble was a failed read
					st.Faults = nil
					res.Violate("base-missing-under-read-error", "fault %d (fired=%d): SeekCommonAncestor%v reports %q although common ancestors exist (%v): the read error was taken for the end of history", fi, f.Fired, tp, err, keysOf(common))
					return
				}
			}
			if f.Fired > 0 {
				res.fault("store_read_error", 1)
			}
		}
	}
	st.Faults = nil
	res.stat("sim_steps", float64(w.Steps))
	merges, inconsistent := 0, false
	for i, ps := range g.Parents {
		if len(ps) >= 2 {
			merges++
		}
		for _, pp := range ps {
			if len(g.Times) > 0 && g.Times[pp] >= g.Times[i] {
				inconsistent = true
			}
		}
	}
	if inconsistent {
		res.probe("time_inconsistent_with_topology", 1)
	}
	res.Nontrivial = merges >= 1 && inconsistent
}

func keysOf(m map[int]bool) []int {
	var ks []int
	for k := range m {
		ks = append(ks, k)
	}
	for i := 1; i < len(ks); i++ {
		for j := i; j > 0 && ks[j-1] > ks[j]; j-- {
			ks[j-1], ks[j] = ks[j], ks[j-1]
		}
	}
	return ks
}

// execC11Long: a walk over a history of thousands of commits visits every commit exactly once, whatever the
// timestamps say; the ancestor test and the merge base agree with the chain.
func execC11Long(l *C11Long, res *Result) {
	if l.N < 2 || l.N > 20000 || len(l.Ahead) > 16 || len(l.Extra) > 16 {
		res.Invalid("long plan out of range")
		return
	}
	ahead := map[int]bool{}
	for _, a := range l.Ahead {
		if a < 0 || a >= l.N {
			res.Invalid("ahead")
			return
		}
		ahead[a] = true
	}
	extra := map[int][]int{}
	for _, e := range l.Extra {
		if len(e) != 2 || e[1] < 0 || e[0] <= e[1]+1 || e[0] >= l.N {
			res.Invalid("extra edge")
			return
		}
		extra[e[0]] = append(extra[e[0]], e[1])
	}
	st := NewStore("L", &World{})
	sums := make([][]byte, l.N)
	idx := make(map[string]int, l.N)
	for i := 0; i < l.N; i++ {
		c := &objects.Commit{Table: meowSum([]byte("t")), AuthorName: "a", AuthorEmail: "a@x", Message: fmt.Sprintf("c%d", i)}
		c.Time = bubbleEpoch.Add(time.Duration(i) * time.Minute)
		if ahead[i] {
			c.Time = c.Time.Add(400 * 24 * time.Hour)
		}
		if i > 0 {
			c.Parents = append(c.Parents, sums[i-1])
		}
		for _, p := range extra[i] {
			c.Parents = append(c.Parents, sums[p])
		}
		var b bytes.Buffer
		if _, err := c.WriteTo(&b); err != nil {
			res.Invalid("%v", err)
			return
		}
		sums[i] = meowSum(b.Bytes())
		idx[string(sums[i])] = i
		st.RawSet("com/"+string(sums[i]), b.Bytes())
	}
	q, err := ref.NewCommitsQueue(st, [][]byte{sums[l.N-1]})
	if err != nil {
		res.Violate("walk-error", "NewCommitsQueue over a chain of %d commits: %v", l.N, err)
		return
	}
	seen := make([]int, l.N)
	for steps := 0; ; steps++ {
		sum, _, err := q.PopInsertParents()
		if errors.Is(err, io.EOF) {
			break
		}
		if err != nil {
			res.Violate("walk-error", "walk over a chain of %d commits: %v", l.N, err)
			return
		}
		i, ok := idx[string(sum)]
		if !ok {
			res.Violate("walk-wrong", "the walk handed out an unknown commit %x", sum)
			return
		}
		seen[i]++
		if steps > 2*l.N {
			res.Violate("walk-wrong", "walk over a chain of %d commits (ahead-of-time commits at %v, extra edges %v) does not end within %d pops", l.N, l.Ahead, l.Extra, steps)
			return
		}
	}
	for i, k := range seen {
		if k != 1 {
			res.Violate("walk-wrong", "walk over a chain of %d commits visited commit %d %d times (commits stamped 400 days ahead at %v, extra edges %v)", l.N, i, k, l.Ahead, l.Extra)
			return
		}
	}
	if ok, err := ref.IsAncestorOf(st, sums[0], sums[l.N-1]); err != nil || !ok {
		res.Violate("ancestor-wrong", "IsAncestorOf(root, head) over a chain of %d commits = %v, %v", l.N, ok, err)
		return
	}
	if ok, err := ref.IsAncestorOf(st, sums[l.N-1], sums[l.N/2]); err != nil || ok {
		res.Violate("ancestor-wrong", "IsAncestorOf(head, middle) over a chain of %d commits = %v, %v", l.N, ok, err)
		return
	}
	res.probe("history_of_thousands_of_commits", 1)
	res.Nontrivial = true
}
