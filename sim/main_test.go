package sim

import (
	"encoding/json"
	"fmt"
	"os"
	"os/signal"
	"strconv"
	"strings"
	"syscall"
	"testing"
	"time"
)

func TestMain(m *testing.M) {
	// The os/signal loop goroutine must exist before any bubble (DESIGN 1).
	c := make(chan os.Signal, 1)
	signal.Notify(c, os.Interrupt)
	signal.Stop(c)
	signal.Ignore(syscall.SIGXFSZ) // file-size-limit faults (kit_fsize.go) must surface as EFBIG, not kill the worker
	if d := os.Getenv("VERIF_TMP"); d != "" {
		os.Setenv("TMPDIR", d)
	}
	os.Exit(m.Run())
}

// TestWorker is the only entry point. Environment:
//
//	VERIF_PROFILE  profile id
//	VERIF_OUT      JSONL output file
//	VERIF_TIER     quick|thorough
//	VERIF_SEEDS    start:count:stride   (generate and run)
//	VERIF_PLAN     path of a plan file {"profile":..,"seed":..,"plan":{..}} (replay)
//	VERIF_DEADLINE unix seconds after which no new case is started
func TestWorker(t *testing.T) {
	pid := os.Getenv("VERIF_PROFILE")
	if pid == "" {
		t.Skip("no VERIF_PROFILE")
	}
	p := Profiles[pid]
	if p == nil {
		t.Fatalf("unknown profile %q", pid)
	}
	out := os.Stdout
	if o := os.Getenv("VERIF_OUT"); o != "" {
		f, err := os.OpenFile(o, os.O_CREATE|os.O_WRONLY|os.O_APPEND, 0644)
		if err != nil {
			t.Fatal(err)
		}
		defer f.Close()
		out = f
	}
	tier := os.Getenv("VERIF_TIER")
	if tier == "" {
		tier = "quick"
	}
	if pf := os.Getenv("VERIF_PLAN"); pf != "" {
		b, err := os.ReadFile(pf)
		if err != nil {
			t.Fatal(err)
		}
		var pl struct {
			Profile string          `json:"profile"`
			Seed    uint64          `json:"seed"`
			Plan    json.RawMessage `json:"plan"`
		}
		if err := json.Unmarshal(b, &pl); err != nil {
			t.Fatal(err)
		}
		emit(out, workerEvent{Ev: "start", Seed: pl.Seed})
		stopHang := hangWatch(out, p, pl.Seed, pl.Plan)
		res := RunPlan(t, p, pl.Seed, pl.Plan)
		stopHang()
		emit(out, workerEvent{Ev: "res", Seed: pl.Seed, Res: res})
		return
	}
	parts := strings.Split(os.Getenv("VERIF_SEEDS"), ":")
	if len(parts) != 3 {
		t.Fatalf("VERIF_SEEDS must be start:count:stride")
	}
	start, _ := strconv.ParseUint(parts[0], 10, 64)
	count, _ := strconv.Atoi(parts[1])
	stride, _ := strconv.ParseUint(parts[2], 10, 64)
	var deadline time.Time
	if d := os.Getenv("VERIF_DEADLINE"); d != "" {
		sec, _ := strconv.ParseInt(d, 10, 64)
		deadline = time.Unix(sec, 0)
	}
	for i := 0; i < count; i++ {
		if !deadline.IsZero() && time.Now().After(deadline) {
			break
		}
		seed := start + uint64(i)*stride
		plan := mustJSON(p.Gen(seed, tier))
		emit(out, workerEvent{Ev: "start", Seed: seed})
		stopHang := hangWatch(out, p, seed, plan)
		res := RunPlan(t, p, seed, plan)
		stopHang()
		if res.Verdict != "ok" {
			res.Plan = plan
		}
		if i == 0 && res.Sample == nil {
			if len(plan) <= 3000 {
				res.Sample = plan
			} else {
				res.Sample = string(plan[:1200]) + "…(truncated)"
			}
		}
		emit(out, workerEvent{Ev: "res", Seed: seed, Res: res})
	}
	fmt.Fprintln(out, `{"ev":"end"}`)
}

// TestGen prints the plan a seed expands to (used to recover the plan of a
// case that killed its worker).
func TestGen(t *testing.T) {
	g := os.Getenv("VERIF_GENONLY")
	if g == "" {
		t.Skip()
	}
	seed, _ := strconv.ParseUint(g, 10, 64)
	p := Profiles[os.Getenv("VERIF_PROFILE")]
	tier := os.Getenv("VERIF_TIER")
	if tier == "" {
		tier = "quick"
	}
	fmt.Printf("PLAN %s\n", mustJSON(p.Gen(seed, tier)))
}

// hangWatch: a spinning goroutine (livelock) defeats synctest's deadlock
// detection. When VERIF_HANG_S is set, a case that makes no store/scheduler
// progress during the second half of that many real seconds is reported as
// class "hang" and the process exits; a case that is merely slow is "invalid".
func hangWatch(out *os.File, p *Profile, seed uint64, plan json.RawMessage) (stop func()) {
	secs, _ := strconv.Atoi(os.Getenv("VERIF_HANG_S"))
	if secs <= 0 {
		return func() {}
	}
	done := make(chan struct{})
	go func() {
		half := time.Duration(secs) * time.Second / 2
		select {
		case <-done:
			return
		case <-time.After(half):
		}
		mid := Progress.Load()
		select {
		case <-done:
			return
		case <-time.After(half):
		}
		res := &Result{Profile: p.ID, Seed: seed, PlanHash: PlanHash(plan), Plan: plan, Nontrivial: true}
		if Progress.Load() == mid {
			res.Verdict, res.Class = "violation", "hang"
			res.Detail = fmt.Sprintf("the operation did not return within %d s of real time and performed no store operation during the last %d s (a goroutine spins or blocks outside the bubble's view)", secs, secs/2)
		} else {
			res.Verdict, res.Detail = "invalid", fmt.Sprintf("case still making progress after %d s", secs)
		}
		emit(out, workerEvent{Ev: "res", Seed: seed, Res: res})
		os.Exit(3)
	}()
	return func() { close(done) }
}
