package sim

// C12: prune on generated repositories (shared blocks, every ref kind, shallow
// commits, deleted refs, repeated prune) vs a reachability model over the store.

import (
	"bytes"
	"encoding/json"
	"fmt"
	"os"
	"path/filepath"
	"strings"
	"testing"
	"time"

	"github.com/google/uuid"
	"github.com/wrgl/wrgl/pkg/prune"
	"github.com/wrgl/wrgl/pkg/ref"
)

type C12Plan struct {
	Repo    RepoSpec `json:"repo"`
	Refs    []C12Ref `json:"refs"`
	Shallow []int    `json:"shallow"` // variants whose table objects are absent (never fetched)
	Delete  []int    `json:"delete"`  // indices into Refs deleted before pruning
	ViaCLI  bool     `json:"via_cli"`
	Faults  []*Fault `json:"faults,omitempty"` // store-op errors injected into the first prune
	// Lost: a damaged repository: that many blocks / block indices (the greatest keys first when LostTop) are
	// absent from the store although tables list them
	Lost    int  `json:"lost,omitempty"`
	LostTop bool `json:"lost_top,omitempty"`
	// LostCommit k > 0: the commit object of the FIRST parent of merge commit k-1 is absent (a damaged or partly
	// restored store). Prune may refuse to run; if it runs, everything still reachable through the objects that are
	// present (the merge's other parents and their history) must survive
	LostCommit int `json:"lost_commit,omitempty"`
	// TxTTL (CLI cases): the open transaction has a row of its own, begun AgeH simulated hours before `wrgl gc` runs;
	// transactionTTL is set to TTLH hours in the repository's config ("local"), in the user's global config ("global"),
	// or not at all ("": the 30-day default). Only transactions younger than the TTL in force are generated: gc must
	// leave them, their refs and everything they reach alone
	TxTTL *C12TxTTL `json:"tx_ttl,omitempty"`
}

type C12TxTTL struct {
	AgeH  int    `json:"age_h"`
	TTLH  int    `json:"ttl_h"`
	Where string `json:"where"`
	// ZoneMin: the process's local zone (minutes east of UTC) while the transaction is begun and gc runs; the
	// store keeps and compares the begin time as text
	ZoneMin int `json:"zone_min,omitempty"`
}

type C12Ref struct {
	Kind   string `json:"kind"` // head | tag | remote | tx | custom
	Commit int    `json:"commit"`
}

func init() {
	Register(&Profile{
		ID: "C12", Prop: "C12",
		Rule: "repository = commit DAG (<=16) over a pool of tables sharing blocks, refs of every kind (heads, tags, remote-tracking, refs of an open transaction, custom) on random commits, shallow commits (table never fetched), a random subset of refs deleted, then prune twice (library; CLI prune/gc in a share of the cases); reachability model over the raw store; non-trivial = >=1 commit removed and >=1 kept, or a shallow commit present; distinct by plan hash",
		Gen: func(seed uint64, tier string) any {
			r := NewRand(seed)
			p := C12Plan{Repo: GenRepoSpec(r.Sub("repo"), 16, 600), ViaCLI: r.Chance(0.15)}
			n := p.Repo.Graph.N()
			nr := r.Range(1, 5)
			for i := 0; i < nr; i++ {
				p.Refs = append(p.Refs, C12Ref{Kind: Pick(r, []string{"head", "head", "tag", "remote", "tx", "custom"}), Commit: r.Intn(n)})
			}
			if r.Chance(0.3) {
				p.Shallow = append(p.Shallow, r.Intn(len(p.Repo.Variants)+1))
			}
			for i := range p.Refs {
				if r.Chance(0.35) {
					p.Delete = append(p.Delete, i)
				}
			}
			if r.Chance(0.12) {
				p.Lost, p.LostTop = r.Range(1, 3), r.Chance(0.6)
			}
			if p.ViaCLI && p.Lost == 0 && r.Chance(0.5) {
				p.Refs = append(p.Refs, C12Ref{Kind: "tx", Commit: r.Intn(n)})
				tt := &C12TxTTL{Where: Pick(r, []string{"", "local", "global", "global"})}
				if tt.Where == "" {
					tt.AgeH = Pick(r, []int{1, 24, 700, 719})
				} else {
					tt.TTLH = Pick(r, []int{1000, 2400, 24 * 365})
					tt.AgeH = Pick(r, []int{1, 721, 800, tt.TTLH - 1})
				}
				if rz := r.Sub("txzone"); rz.Chance(0.6) {
					tt.ZoneMin = Pick(rz, []int{540, 330, -300, 765, 120, -600, 60})
				}
				p.TxTTL = tt
				return p
			}
			if p.Lost == 0 && r.Chance(0.08) {
				var merges []int
				for i, ps := range p.Repo.Graph.Parents {
					if len(ps) >= 2 && ps[0] != ps[1] {
						merges = append(merges, i)
					}
				}
				if len(merges) > 0 {
					m := Pick(r, merges)
					p.LostCommit = m + 1
					// a ref on the merge (or on a descendant) so that it matters
					p.Refs = append(p.Refs, C12Ref{Kind: "head", Commit: Pick(r, []int{m, m, n - 1})})
					return p
				}
			}
			if r.Chance(0.3) {
				for k := r.Range(1, 2); k > 0; k-- {
					p.Faults = append(p.Faults, &Fault{Op: Pick(r, []string{"get", "get", "read", "del", "filterkey", "any"}), Prefix: Pick(r, []string{"com/", "com/", "tbl/", "blk", ""}), Nth: r.Range(1, 30), Sticky: r.Chance(0.2)})
				}
			}
			return p
		},
		Exec: execC12,
	})
}

const c12tx = "b1b1c2d3-0000-4000-8000-0000000000aa"

func execC12(t *testing.T, raw json.RawMessage, res *Result) {
	var p C12Plan
	if err := json.Unmarshal(raw, &p); err != nil {
		res.Invalid("plan: %v", err)
		return
	}
	if err := p.Repo.Validate(); err != nil || p.Repo.Graph.N() == 0 || p.Repo.Graph.N() > 60 || len(p.Refs) > 20 {
		res.Invalid("plan: %v", err)
		return
	}
	n := p.Repo.Graph.N()
	w := &World{}
	var st *Store
	var node *Node
	var refPath string
	if p.ViaCLI {
		var err error
		node, err = NewNode(t, "L", w)
		if err != nil {
			res.Invalid("node: %v", err)
			return
		}
		defer node.Close()
		st = node.Objs
		refPath = filepath.Join(node.WrglDir, "sqlite.db")
	} else {
		st = NewStore("L", w)
		dir, err := os.MkdirTemp("", "c12-")
		if err != nil {
			res.Invalid("%v", err)
			return
		}
		defer os.RemoveAll(dir)
		refPath = filepath.Join(dir, "sqlite.db")
	}
	br, err := p.Repo.Build(t, st)
	if err != nil {
		res.Invalid("build: %v", err)
		return
	}
	for _, v := range p.Shallow {
		if v < 0 || v >= len(br.Tables) {
			res.Invalid("shallow index")
			return
		}
		ts := string(br.Tables[v])
		st.RawDelete("tbl/" + ts)
		st.RawDelete("tblidx/" + ts)
		st.RawDelete("tblsum/" + ts)
	}
	if p.Lost < 0 || p.Lost > 20 {
		res.Invalid("lost")
		return
	}
	if p.Lost > 0 {
		for _, pfx := range []string{"blk/", "blkidx/"} {
			ks := sortStrings(st.Keys(pfx))
			for k := 0; k < p.Lost && len(ks) > 0; k++ {
				i := len(ks) - 1
				if !p.LostTop {
					i = (k*7 + p.Lost) % len(ks)
				}
				st.RawDelete(ks[i])
				ks = append(ks[:i], ks[i+1:]...)
			}
		}
		res.probe("damaged_repository_lost_blocks", 1)
	}
	if p.LostCommit < 0 || p.LostCommit > n || (p.LostCommit > 0 && (len(p.Faults) > 0 || p.Lost > 0)) {
		res.Invalid("lost commit")
		return
	}
	if p.LostCommit > 0 {
		ps := p.Repo.Graph.Parents[p.LostCommit-1]
		if len(ps) < 2 || ps[0] == ps[1] {
			res.Invalid("lost commit: not a merge")
			return
		}
		st.RawDelete("com/" + string(br.Commits[ps[0]]))
		res.probe("damaged_repository_lost_first_parent_of_merge", 1)
	}
	// blocks only referenced by removed (shallow) tables stay as garbage: prune may or may not take them
	db, err := OpenRefDB(refPath)
	if err != nil {
		res.Invalid("refdb: %v", err)
		return
	}
	names := make([]string, len(p.Refs))
	for i, rf := range p.Refs {
		if rf.Commit < 0 || rf.Commit >= n {
			db.Close()
			res.Invalid("ref commit")
			return
		}
		switch rf.Kind {
		case "head":
			names[i] = fmt.Sprintf("heads/b%d", i)
		case "tag":
			names[i] = fmt.Sprintf("tags/t%d", i)
		case "remote":
			names[i] = fmt.Sprintf("remotes/origin/b%d", i)
		case "tx":
			names[i] = fmt.Sprintf("txs/%s/b%d", c12tx, i)
		case "custom":
			names[i] = fmt.Sprintf("x/y%d", i)
		default:
			db.Close()
			res.Invalid("ref kind")
			return
		}
		if err := db.Set(names[i], br.Commits[rf.Commit]); err != nil {
			db.Close()
			res.Invalid("set ref: %v", err)
			return
		}
	}
	for _, d := range p.Delete {
		if d < 0 || d >= len(names) {
			db.Close()
			res.Invalid("delete index")
			return
		}
		db.Delete(names[d])
	}
	if p.TxTTL != nil {
		tt := p.TxTTL
		ttl := 720
		if tt.Where != "" {
			ttl = tt.TTLH
		}
		if !p.ViaCLI || tt.AgeH < 0 || tt.AgeH >= ttl || ttl > 24*365*20 || (tt.Where != "" && tt.Where != "local" && tt.Where != "global") || len(p.Faults) > 0 {
			db.Close()
			res.Invalid("tx_ttl")
			return
		}
		if tt.ZoneMin < -14*60 || tt.ZoneMin > 14*60 {
			db.Close()
			res.Invalid("zone")
			return
		}
		if tt.ZoneMin != 0 {
			prevLocal := time.Local
			time.Local = time.FixedZone("sim", tt.ZoneMin*60)
			defer func() { time.Local = prevLocal }()
			res.probe("gc_in_a_zone_off_utc", 1)
		}
		// begun as `wrgl transaction start` does: at time.Now(), which carries the local zone
		if _, err := db.NewTransaction(&ref.Transaction{ID: uuid.MustParse(c12tx), Status: ref.TSInProgress, Begin: bubbleEpoch.Add(node.Clock).In(time.Local)}); err != nil {
			db.Close()
			res.Invalid("transaction row: %v", err)
			return
		}
	}
	refs, _ := db.Filter(nil, nil)
	db.Close()
	if p.TxTTL != nil {
		os.Setenv("XDG_CONFIG_HOME", filepath.Join(node.Root, "xdg"))
		if p.TxTTL.Where != "" {
			args := []string{"config", "set", "transactionTTL", fmt.Sprintf("%dh", p.TxTTL.TTLH)}
			if p.TxTTL.Where == "global" {
				args = append(args, "--global")
			}
			if r := node.Run(t, args...); r.Failed() {
				res.Invalid("wrgl %v: %v %s", args, r.Err, r.Stdout)
				return
			}
		}
		node.Clock += time.Duration(p.TxTTL.AgeH) * time.Hour
		res.probe("open_transaction_younger_than_ttl_"+p.TxTTL.Where, 1)
	}

	before := st.Snapshot()
	beforeOK := map[string]bool{} // tables that were sound before
	for k := range before {
		if strings.HasPrefix(k, "tbl/") {
			if c, _ := CheckTable(mapReader(before), []byte(k[4:])); c == "" {
				beforeOK[k[4:]] = true
			}
		}
	}
	reach := map[string]bool{}
	for _, sum := range refs {
		anc, err := rawAncestors(st, sum)
		if err != nil && p.LostCommit > 0 {
			// what can still be reached through the commit objects that are present
			anc = map[string]bool{}
			stack := [][]byte{sum}
			for len(stack) > 0 {
				s := stack[len(stack)-1]
				stack = stack[:len(stack)-1]
				if anc[string(s)] {
					continue
				}
				c := rawCommit(st, s)
				if c == nil {
					continue
				}
				anc[string(s)] = true
				stack = append(stack, c.Parents...)
			}
		} else if err != nil {
			res.Invalid("pre-state dangling: %v", err)
			return
		}
		for a := range anc {
			reach[a] = true
		}
	}
	if len(p.Faults) > 8 {
		res.Invalid("faults")
		return
	}
	faultFired := false
	runPrune := func(which string) (ok bool) {
		logStart := w.LogLen()
		if which == "first" && len(p.Faults) > 0 {
			for _, f := range p.Faults {
				f.seen, f.Fired = 0, 0
			}
			st.Faults = p.Faults
			defer func() {
				st.Faults = nil
				for _, f := range p.Faults {
					if f.Fired > 0 {
						faultFired = true
						res.fault("store_"+f.Op, f.Fired)
					}
				}
			}()
		}
		if p.ViaCLI {
			cmdName := "prune"
			if which == "second" {
				cmdName = "gc"
			}
			cr := node.Run(t, cmdName)
			if bubbleProblems(res, cr.Out, "wrgl "+cmdName) {
				return false
			}
			if cr.Err != nil && p.LostCommit > 0 {
				res.probe("prune_refuses_damaged_history", 1)
				return true
			}
			if cr.Err != nil {
				if which == "first" && faultsFired(p.Faults) {
					res.probe("prune_failed_on_injected_error", 1)
					return true
				}
				res.Violate("prune-error", "%s `wrgl %s` failed: %v", which, cmdName, cr.Err)
				return false
			}
		} else {
			var perr error
			bo := Bubble(t, 0, func(mainDone *bool) {
				rdb, err := OpenRefDB(refPath)
				if err != nil {
					perr = err
					return
				}
				defer rdb.Close()
				perr = prune.Prune(st, rdb, nil)
				*mainDone = true
			})
			if bubbleProblems(res, bo, which+" prune") {
				return false
			}
			if perr != nil && p.LostCommit > 0 {
				res.probe("prune_refuses_damaged_history", 1)
				return true
			}
			if perr != nil {
				if which == "first" && faultsFired(p.Faults) {
					res.probe("prune_failed_on_injected_error", 1)
					return true
				}
				res.Violate("prune-error", "%s prune failed: %v", which, perr)
				return false
			}
		}
		if which == "second" && !faultFired {
			for _, r := range w.Log[logStart:] {
				if r.Store == st.Name {
					res.Violate("second-prune-writes", "a repeated prune performed store writes (first: %s %s)", r.Op, FmtKey(r.Key))
					return false
				}
			}
		}
		return true
	}
	if !runPrune("first") {
		return
	}
	checkAfter := func(after map[string][]byte, strict bool) bool {
	// survivors
	keepTables := map[string]bool{}
	for _, k := range sortStrings(keysOfMap(before)) {
		if !strings.HasPrefix(k, "com/") {
			continue
		}
		sum := k[4:]
		if reach[sum] {
			if v, ok := after[k]; !ok || !bytes.Equal(v, before[k]) {
				res.Violate("reachable-commit-removed", "commit %x is reachable from a ref but was removed or altered by prune", sum)
				return false
			}
			c := rawCommit(mapReader(before), []byte(sum))
			keepTables[string(c.Table)] = true
		} else if _, ok := after[k]; ok && strict {
			res.Violate("unreachable-commit-kept", "commit %x is not reachable from any ref but survived prune", sum)
			return false
		}
	}
	keepBlocks := map[string]bool{}
	for _, ts := range sortStrings(keysOfBool(keepTables)) {
		tv, had := before["tbl/"+ts]
		if !had {
			res.probe("shallow_commit_survives", 1)
			continue
		}
		for _, pre := range []string{"tbl/", "tblidx/", "tblsum/"} {
			if bv, ok := before[pre+ts]; ok {
				if av, ok := after[pre+ts]; !ok || !bytes.Equal(av, bv) {
					res.Violate("reachable-table-damaged", "%s%x of a reachable commit was removed or altered by prune", pre, ts)
					return false
				}
			}
		}
		_ = tv
		tb, _, _ := ReadTableRaw(mapReader(before), []byte(ts))
		if tb == nil {
			continue // table object unreadable before
		}
		// (an error only means that some listed block was absent before: the others still count)
		for i, b := range tb.Blocks {
			keepBlocks[string(b)] = true
			keys := []string{"blk/" + string(b)}
			if i < len(tb.BlockIndices) {
				keys = append(keys, "blkidx/"+string(tb.BlockIndices[i]))
			}
			for _, key := range keys {
				if bv, ok := before[key]; ok {
					if av, ok := after[key]; !ok || !bytes.Equal(av, bv) {
						res.Violate("reachable-block-removed", "%s of a reachable table %x was removed by prune", FmtKey(key), ts)
						return false
					}
				}
			}
		}
		if beforeOK[ts] {
			if c, d := CheckTable(mapReader(after), []byte(ts)); c != "" {
				res.Violate("reachable-table-damaged", "table %x was sound before prune and is not afterwards: %s %s", ts, c, d)
				return false
			}
		}
	}
	// tables referenced only by removed commits, blocks referenced only by removed tables
	goneTables := map[string]bool{}
	for k := range before {
		if strings.HasPrefix(k, "com/") && !reach[k[4:]] {
			if c := rawCommit(mapReader(before), []byte(k[4:])); c != nil && !keepTables[string(c.Table)] {
				goneTables[string(c.Table)] = true
			}
		}
	}
	goneBlocks := map[string]bool{}
	for ts := range goneTables {
		if tb, _, err := ReadTableRaw(mapReader(before), []byte(ts)); err == nil || tb != nil {
			for _, b := range tb.Blocks {
				if !keepBlocks[string(b)] {
					goneBlocks[string(b)] = true
				}
			}
		}
	}
	for _, k := range sortStrings(keysOfMap(after)) {
		switch {
		case strings.HasPrefix(k, "tbl/"):
			if goneTables[k[4:]] && strict {
				res.Violate("unreferenced-table-kept", "table %x is referenced only by removed commits but survived prune", k[4:])
				return false
			}
		case strings.HasPrefix(k, "blk/"):
			if goneBlocks[k[4:]] && strict {
				res.Violate("unreferenced-block-kept", "block %x is referenced only by removed tables but survived prune", k[4:])
				return false
			}
		}
	}
	return true
	}
	if !checkAfter(st.Snapshot(), !faultFired && p.LostCommit == 0) {
		return
	}
	if p.LostCommit > 0 {
		res.Nontrivial = true
		return
	}
	if !runPrune("second") {
		return
	}
	if p.TxTTL != nil {
		// gc ran: the transaction is younger than the TTL in force, so its refs and what they reach are still there
		if !checkAfter(st.Snapshot(), true) {
			return
		}
		db2, err := OpenRefDB(refPath)
		if err != nil {
			res.Invalid("refdb: %v", err)
			return
		}
		refs2, _ := db2.Filter(nil, nil)
		_, terr := db2.GetTransaction(uuid.MustParse(c12tx))
		db2.Close()
		for name := range refs {
			if _, ok := refs2[name]; !ok {
				res.Violate("gc-removed-live-ref", "`wrgl gc` removed ref %s: the transaction began %d h ago and transactionTTL (%s config) is %d h (0 = the 30-day default)", name, p.TxTTL.AgeH, p.TxTTL.Where, p.TxTTL.TTLH)
				return
			}
		}
		if terr != nil {
			res.Violate("gc-removed-live-transaction", "`wrgl gc` discarded a transaction begun %d h ago although transactionTTL (%s config) is %d h (0 = the 30-day default): %v", p.TxTTL.AgeH, p.TxTTL.Where, p.TxTTL.TTLH, terr)
			return
		}
	}
	if faultFired {
		// once the errors stop, one more prune completes the job
		if !checkAfter(st.Snapshot(), true) {
			return
		}
		res.probe("prune_completed_after_faulted_run", 1)
	}
	removed := 0
	for k := range before {
		if strings.HasPrefix(k, "com/") && !reach[k[4:]] {
			removed++
		}
	}
	res.stat("sim_steps", float64(w.Steps))
	if len(p.Shallow) > 0 {
		res.probe("shallow_tables", 1)
	}
	if p.ViaCLI {
		res.probe("via_cli", 1)
	}
	res.Nontrivial = (removed >= 1 && len(reach) >= 1) || len(p.Shallow) > 0
}

func keysOfMap(m map[string][]byte) []string {
	ks := make([]string, 0, len(m))
	for k := range m {
		ks = append(ks, k)
	}
	return ks
}

func keysOfBool(m map[string]bool) []string {
	ks := make([]string, 0, len(m))
	for k := range m {
		ks = append(ks, k)
	}
	return ks
}

func faultsFired(fs []*Fault) bool {
	for _, f := range fs {
		if f.Fired > 0 {
			return true
		}
	}
	return false
}
