package sim

// C05 (CLI path): `wrgl merge BRANCH COMMIT [--ff|--no-ff|--ff-only]` in-process for the history
// shapes in which one side is the base (merge(base; X, base) = X whichever side X is on) and for a
// diverged pair with disjoint edits; the branch's table is exported and compared with the model.

import (
	"encoding/json"
	"fmt"
	"os"
	"path/filepath"
	"slices"
	"strings"
	"testing"
	"time"

	"github.com/wrgl/wrgl/pkg/objects"
)

type C05CLIPlan struct {
	Base  SynthSpec `json:"base"`
	E1    []Edit    `json:"e1"` // edits on main (when main moves)
	E2    []Edit    `json:"e2"` // edits on alt (when alt moves)
	Shape string    `json:"shape"` // ahead | behind | equal | diverged
	FF    string    `json:"ff"`    // "", ff, no-ff, ff-only
	Depth int       `json:"depth"` // extra commits on the moving side (1..3)
	Fault *Fault    `json:"fault,omitempty"` // an object-store read fails during the merge: refused, or right
	Via   string    `json:"via,omitempty"`   // "nogui": first `wrgl merge --no-gui` (CONFLICTS_<sums>.csv: no conflict rows, the merge result behind an empty first cell), then the ordinary merge; "csv": a real merge goes `wrgl merge --no-commit` (result written to MERGE_<sums>.csv, rows from the sorter's row output) and then `wrgl merge --commit-csv <that file>`
}

func init() {
	Register(&Profile{
		ID: "C05cli", Prop: "C05",
		Rule: "`wrgl merge main alt` through the in-process CLI: main ahead of alt, behind alt, equal to alt, or diverged with disjoint cell edits and row additions x fast-forward mode (default, --ff, --no-ff, --ff-only) x 1-3 commits on the moving side; the table main ends up with (exported and raw) must be X when the other side is the base, the union of the edits when diverged; a refused merge must leave main alone; non-trivial = every case",
		Gen: func(seed uint64, tier string) any {
			r := NewRand(seed)
			p := C05CLIPlan{Shape: Pick(r, []string{"ahead", "ahead", "behind", "equal", "diverged", "sidemerge"}), FF: Pick(r, []string{"", "ff", "no-ff", "no-ff", "ff-only"}), Depth: r.Range(1, 3)}
			p.Base = SynthSpec{N: Pick(r, []int{1, 3, 8, 30, 255, 256, 300}), NCols: r.Range(2, 4), Seed: r.Uint64()}
			cols, pk, _ := p.Base.Build()
			p.E1, p.E2 = genDisjointEdits(r.Sub("edits"), cols, pk, p.Base.N)
			if r.Chance(0.3) || (p.Shape == "diverged" && r.Chance(0.5)) {
				p.Fault = &Fault{Op: Pick(r, []string{"get", "get", "read", "any"}), Prefix: Pick(r, []string{"blk/", "blk/", "blk/", "blkidx/", "tbl", "com/", ""}), Nth: r.Range(1, 14), Sticky: r.Chance(0.15)}
			}
			if r.Sub("via").Chance(0.6) && p.Fault == nil && p.FF != "ff-only" && (p.Shape == "diverged" || p.Shape == "sidemerge") {
				p.Via = Pick(r.Sub("via-kind"), []string{"csv", "csv", "nogui"})
			}
			return p
		},
		Exec: execC05CLI,
	})
}

func execC05CLI(t *testing.T, raw json.RawMessage, res *Result) {
	var p C05CLIPlan
	if err := json.Unmarshal(raw, &p); err != nil {
		res.Invalid("plan: %v", err)
		return
	}
	if p.Base.N < 1 || p.Base.N > 2000 || p.Base.NCols < 2 || p.Base.NCols > 8 || len(p.E1) > 50 || len(p.E2) > 50 || p.Depth < 1 || p.Depth > 5 {
		res.Invalid("plan out of range")
		return
	}
	okFF := map[string]bool{"": true, "ff": true, "no-ff": true, "ff-only": true}
	okShape := map[string]bool{"ahead": true, "behind": true, "equal": true, "diverged": true, "sidemerge": true}
	if !okFF[p.FF] || !okShape[p.Shape] {
		res.Invalid("shape/ff")
		return
	}
	cols, pk, rows := p.Base.Build()
	_, _, rows1 := ApplyEdits(cols, pk, rows, p.E1)
	_, _, rows2 := ApplyEdits(cols, pk, rows, p.E2)
	rows1, rows2 = DedupeByKey(cols, pk, rows1), DedupeByKey(cols, pk, rows2)
	_, _, rowsBoth := ApplyEdits(cols, pk, rows1, onlyAdds(p.E2))
	rowsBoth = applyCellEditsByKey(cols, pk, rows, rowsBoth, p.E2)
	rowsBoth = DedupeByKey(cols, pk, rowsBoth)
	w := &World{}
	n, err := NewNode(t, "L", w)
	if err != nil {
		res.Invalid("node: %v", err)
		return
	}
	defer n.Close()
	pkArg := strings.Join(pk, ",")
	must := func(args ...string) bool {
		n.Clock += time.Hour
		r := n.Run(t, args...)
		if r.Failed() {
			res.Invalid("pre-state `wrgl %s` failed: %v %v %s", strings.Join(args, " "), r.Err, r.Out.PanicVal, r.Stdout)
			return false
		}
		return true
	}
	f0 := n.WriteFile("base.csv", CSVText(cols, rows, ','))
	f1 := n.WriteFile("v1.csv", CSVText(cols, rows1, ','))
	f2 := n.WriteFile("v2.csv", CSVText(cols, rows2, ','))
	if !must("commit", "main", f0, "base", "-p", pkArg) || !must("branch", "create", "alt", "main") {
		return
	}
	move := func(branch, file string) bool {
		// Depth commits, the last of which carries file's data (the earlier ones carry the base again / the file)
		for i := 0; i < p.Depth; i++ {
			f := file
			if i < p.Depth-1 && i%2 == 0 {
				f = f0
			}
			if !must("commit", branch, f, fmt.Sprintf("%s %d", branch, i), "-p", pkArg) {
				return false
			}
		}
		return true
	}
	var want [][]string
	switch p.Shape {
	case "ahead":
		if !move("main", f1) {
			return
		}
		want = rows1
	case "behind":
		if !move("alt", f2) {
			return
		}
		want = rows2
	case "equal":
		want = rows
	case "diverged":
		if !move("main", f1) || !move("alt", f2) {
			return
		}
		want = rowsBoth
	case "sidemerge":
		// main: c0 - c1 (cell A := v1) - a1 (cell D) - a2 (cell A back to its old value) - m = merge of side;
		// side forks from c0 (cell C); alt forks from c1 (cell B). The base of main and alt is c1 - the nearest common
		// ancestor - although c0 is fewer parent links away from m (through the one-commit side branch). Merging alt
		// into main must keep main's revert of A: alt never touched A after c1.
		if p.Fault != nil || len(rows) < 4 || len(cols) < 2 {
			res.Skip("sidemerge needs 4 rows and a non-key column, fault-free")
			return
		}
		pkI, _ := pkIndices(cols, pk)
		col := -1
		for j := range cols {
			if !contains(pkI, j) {
				col = j
			}
		}
		if col < 0 {
			res.Skip("no non-key column")
			return
		}
		ver := func(edits map[int]string) [][]string {
			out := make([][]string, len(rows))
			for i := range rows {
				out[i] = append([]string(nil), rows[i]...)
				if v, ok := edits[i]; ok {
					out[i][col] = v
				}
			}
			return out
		}
		write := func(name string, rs [][]string) string { return n.WriteFile(name, CSVText(cols, rs, ',')) }
		fc1 := write("c1.csv", ver(map[int]string{0: "v1"}))
		fa1 := write("a1.csv", ver(map[int]string{0: "v1", 3: "D"}))
		fa2 := write("a2.csv", ver(map[int]string{3: "D"}))
		fs := write("s.csv", ver(map[int]string{2: "C"}))
		fb1 := write("b1.csv", ver(map[int]string{0: "v1", 1: "B"}))
		if !must("branch", "create", "side", "main") ||
			!must("commit", "main", fc1, "c1", "-p", pkArg) ||
			!must("branch", "delete", "alt") || !must("branch", "create", "alt", "main") ||
			!must("commit", "alt", fb1, "b1", "-p", pkArg) ||
			!must("commit", "side", fs, "s", "-p", pkArg) ||
			!must("commit", "main", fa1, "a1", "-p", pkArg) ||
			!must("commit", "main", fa2, "a2", "-p", pkArg) ||
			!must("merge", "main", "side", "-n", "2", "--no-ff") {
			return
		}
		want = ver(map[int]string{1: "B", 2: "C", 3: "D"})
		res.probe("merge_base_behind_a_merged_side_branch", 1)
	}
	refsBefore, _ := n.Refs()
	args := []string{"merge", "main", "alt", "-n", "2"}
	if p.FF != "" {
		args = append(args, "--"+p.FF)
	}
	if p.Via != "" {
		if (p.Via != "csv" && p.Via != "nogui") || p.Fault != nil || p.FF == "ff-only" || (p.Shape != "diverged" && p.Shape != "sidemerge") {
			res.Invalid("via")
			return
		}
		// the two-step route: the merge result as a CSV file, then a merge commit made from that file
		n.Clock += time.Hour
		nc := []string{"merge", "main", "alt", "-n", "2", "--no-commit"}
		pattern := "MERGE_*.csv"
		if p.Via == "nogui" {
			// conflicts (none: the edits are disjoint) and the rest of the merge result written to CONFLICTS_<sums>.csv
			nc, pattern = []string{"merge", "main", "alt", "-n", "2", "--no-gui"}, "CONFLICTS_*.csv"
		}
		r0 := n.Run(t, nc...)
		if bubbleProblems(res, r0.Out, "wrgl "+strings.Join(nc, " ")) {
			return
		}
		if r0.Err != nil {
			res.Violate("merge-error", "`wrgl %s` (%s) failed: %v\n%s", strings.Join(nc, " "), p.Shape, r0.Err, r0.Stdout)
			return
		}
		if refsNow, _ := n.Refs(); !sameRefs(refsNow, refsBefore) {
			res.Violate("no-commit-moved-ref", "`wrgl %s` changed the refs", strings.Join(nc, " "))
			return
		}
		files, _ := filepath.Glob(filepath.Join(n.Root, pattern))
		if len(files) != 1 {
			res.Violate("no-commit-no-file", "`wrgl %s` left %d MERGE_ / CONFLICTS_*.csv files in the working directory\n%s", strings.Join(nc, " "), len(files), r0.Stdout)
			return
		}
		text, err := os.ReadFile(files[0])
		if err != nil {
			res.Invalid("%v", err)
			return
		}
		fcols, frows, err := ParseCSV(text, ',')
		if p.Via == "nogui" && err == nil {
			// layout: ["", columns...], one "COLUMNS IN <branch>" row per branch, conflicts labelled by branch, then
			// the rows merged without conflict behind an empty first cell
			if len(fcols) == 0 || fcols[0] != "" {
				res.Violate("no-commit-file-wrong", "%s: header %q does not start with an empty cell", filepath.Base(files[0]), fcols)
				return
			}
			fcols = fcols[1:]
			var rest [][]string
			for _, r := range frows {
				switch {
				case len(r) == 0:
				case strings.HasPrefix(r[0], "COLUMNS IN "):
				case r[0] != "":
					res.Violate("spurious-conflict", "`wrgl %s` with disjoint edits lists a conflict row %s", strings.Join(nc, " "), clip(r))
					return
				default:
					rest = append(rest, r[1:])
				}
			}
			frows = rest
		}
		if err != nil || len(fcols) != len(cols) {
			res.Violate("no-commit-file-wrong", "%s: columns %q (err %v), want %q", filepath.Base(files[0]), fcols, err, cols)
			return
		}
		pkI0, _ := pkIndices(cols, pk)
		exp0 := IngestModel(cols, NormaliseCSV(cols, want), pkI0)
		var byName [][]string
		for _, r := range frows {
			out := make([]string, len(cols))
			for j, c := range cols {
				x := slices.Index(fcols, c)
				if x < 0 {
					res.Violate("no-commit-file-wrong", "%s: columns %q, want %q", filepath.Base(files[0]), fcols, cols)
					return
				}
				out[j] = r[x]
			}
			byName = append(byName, out)
		}
		tpk0 := make([]uint32, len(pkI0))
		for i, u := range pkI0 {
			tpk0[i] = uint32(u)
		}
		if c, d := exp0.Compare(cols, tpk0, byName); c != "" {
			res.Violate("merge-file-"+c, "`wrgl %s` with main %s alt: the rows of %s are not the merge result: %s", strings.Join(nc, " "), p.Shape, filepath.Base(files[0]), d)
			return
		}
		if p.Via == "nogui" {
			res.probe("merge_no_gui_conflicts_file", 1) // the ordinary merge follows
		} else {
			res.probe("merge_no_commit_then_commit_csv", 1)
			args = []string{"merge", "main", "alt", "-n", "2", "--commit-csv", files[0]}
		}
	}
	n.Clock += time.Hour
	if p.Fault != nil {
		p.Fault.seen, p.Fault.Fired = 0, 0
		n.Objs.Faults = []*Fault{p.Fault}
	}
	cr := n.Run(t, args...)
	n.Objs.Faults = nil
	if bubbleProblems(res, cr.Out, "wrgl "+strings.Join(args, " ")) {
		return
	}
	refsAfter, _ := n.Refs()
	if p.Fault != nil && p.Fault.Fired > 0 {
		res.fault("store_read_error", 1)
		if cr.Err != nil {
			// refused because of the read error: main must not have moved
			if string(refsAfter["heads/main"]) != string(refsBefore["heads/main"]) {
				res.Violate("failed-merge-moved-branch", "`wrgl %s` failed (%v) after a store read error but main moved", strings.Join(args, " "), cr.Err)
				return
			}
			res.probe("merge_refused_on_read_error", 1)
			res.Nontrivial = true
			return
		}
		res.probe("merge_succeeded_despite_read_error", 1) // then the result must be right (checked below)
	}
	if cr.Err != nil {
		if (p.Shape == "diverged" || p.Shape == "sidemerge") && p.FF == "ff-only" {
			if string(refsAfter["heads/main"]) != string(refsBefore["heads/main"]) {
				res.Violate("refused-merge-moved-branch", "`wrgl %s` was refused (%v) but main moved", strings.Join(args, " "), cr.Err)
				return
			}
			res.probe("ff_only_refused", 1)
			res.Nontrivial = true
			return
		}
		res.Violate("merge-error", "`wrgl %s` (%s) failed: %v\n%s", strings.Join(args, " "), p.Shape, cr.Err, cr.Stdout)
		return
	}
	if (p.Shape == "diverged" || p.Shape == "sidemerge") && p.FF == "ff-only" {
		res.Violate("ff-only-merged", "`wrgl %s` merged diverged branches: %s", strings.Join(args, " "), cr.Stdout)
		return
	}
	head := refsAfter["heads/main"]
	com, err := objects.GetCommit(n.Objs, head)
	if err != nil {
		res.Violate("commit-missing", "after the merge heads/main -> %x: %v", head, err)
		return
	}
	if c, d := CheckTable(n.Objs, com.Table); c != "" {
		res.Violate("c03-"+c, "table of main after `wrgl %s`: %s", strings.Join(args, " "), d)
		return
	}
	tbl, got, err := ReadTableRaw(n.Objs, com.Table)
	if err != nil {
		res.Violate("table-unreadable", "%v", err)
		return
	}
	pkIdx, _ := pkIndices(cols, pk)
	exp := IngestModel(cols, NormaliseCSV(cols, want), pkIdx)
	// merged layout hoists the key to the front: compare by column name
	byName := func(tcols []string, r []string) []string {
		out := make([]string, len(cols))
		for j, c := range cols {
			for x, tc := range tcols {
				if tc == c {
					out[j] = r[x]
				}
			}
		}
		return out
	}
	if len(tbl.Columns) != len(cols) {
		res.Violate("columns-wrong", "main's table has columns %q, want %q", tbl.Columns, cols)
		return
	}
	var gotByName [][]string
	for _, r := range got {
		gotByName = append(gotByName, byName(tbl.Columns, r))
	}
	tpk := make([]uint32, len(pkIdx))
	for i, u := range pkIdx {
		tpk[i] = uint32(u)
	}
	if c, d := exp.Compare(cols, tpk, gotByName); c != "" {
		res.Violate("merge-"+c, "`wrgl %s` with main %s alt (%d commits): main's table is not the expected one: %s", strings.Join(args, " "), p.Shape, p.Depth, d)
		return
	}
	// the history: the merge never loses main's own commits
	anc, err := rawAncestors(n.Objs, head)
	if err != nil || !anc[string(refsBefore["heads/main"])] || !anc[string(refsBefore["heads/alt"])] {
		res.Violate("merge-history", "after `wrgl %s` main (%x) does not descend from both its old head and alt (err=%v)", strings.Join(args, " "), head, err)
		return
	}
	res.probe("shape_"+p.Shape+"_"+p.FF, 1)
	res.Nontrivial = true
}

func onlyAdds(es []Edit) []Edit {
	var out []Edit
	for _, e := range es {
		if e.Op == "addrow" {
			out = append(out, e)
		}
	}
	return out
}

// applyCellEditsByKey re-applies the setcell edits of es (which index rows of base) to the rows of cur that carry the same key.
func applyCellEditsByKey(cols, pk []string, base, cur [][]string, es []Edit) [][]string {
	pkIdx, _ := pkIndices(cols, pk)
	out := make([][]string, len(cur))
	for i, r := range cur {
		out[i] = append([]string(nil), r...)
	}
	for _, e := range es {
		if e.Op != "setcell" || e.Row < 0 || e.Row >= len(base) || e.Col < 0 || e.Col >= len(cols) {
			continue
		}
		k := keyStr(keyOf(base[e.Row], pkIdx))
		for i := range out {
			if keyStr(keyOf(out[i], pkIdx)) == k {
				out[i][e.Col] = ToBytes(ExpandCell(e.Val))
			}
		}
	}
	return out
}

func sameRefs(a, b map[string][]byte) bool {
	if len(a) != len(b) {
		return false
	}
	for k, v := range a {
		if w, ok := b[k]; !ok || string(v) != string(w) {
			return false
		}
	}
	return true
}
