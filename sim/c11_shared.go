package sim

// C11 (a queue shared by two goroutines): CommitsQueue carries a mutex, so two walkers may feed one queue. Both
// insert the same commit at the same moment - the two sides of a diamond reaching their common parent. The store
// read of that commit is a rendezvous: it lets a caller through once a second caller has arrived, or after 30 ms
// of real time when nobody else can (the queue holds its lock across the read). Either way the commit must be
// queued, and visited, once. The wait is only a bound: the verdict does not depend on timing.

import (
	"sync"
	"time"

	"github.com/wrgl/wrgl/pkg/objects"
)

type rendezvousStore struct {
	objects.Store
	key     string
	mu      sync.Mutex
	arrived int
	both    chan struct{}
	Met     bool
}

func newRendezvousStore(inner objects.Store, key string) *rendezvousStore {
	return &rendezvousStore{Store: inner, key: key, both: make(chan struct{})}
}

func (s *rendezvousStore) Get(k []byte) ([]byte, error) {
	if string(k) == s.key {
		s.mu.Lock()
		s.arrived++
		if s.arrived == 2 {
			s.Met = true
			close(s.both)
		}
		s.mu.Unlock()
		select {
		case <-s.both:
		case <-time.After(30 * time.Millisecond):
		}
	}
	return s.Store.Get(k)
}
