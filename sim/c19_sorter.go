package sim

// C19: real sorter.Sorter at run sizes from "every row spills" to "nothing
// spills"; both outputs against the sort+dedupe model; spill files removed.

import (
	"bytes"
	"context"
	"encoding/json"
	"io"
	"testing"

	"github.com/wrgl/wrgl/pkg/sorter"
)

type C19Plan struct {
	Table   TableSpec `json:"table"`
	RunSize uint64    `json:"run_size"`
	Removed []int     `json:"removed,omitempty"` // column indices to drop from the output
	Feed    string    `json:"feed"`              // "csv" (SortFile) | "rows" (SetColumns+AddRow) | "bare" (PK+AddRow only, as merge.RowCollector does)
}

func init() {
	Register(&Profile{
		ID: "C19", Prop: "C19",
		Rule: "generated row multisets (duplicate keys, composite keys with tying first component, keyless) x run size 1..inf (0..k spill files) x removed-column sets x feed path (SortFile / AddRow); non-trivial = >=3 rows and >=1 spill file or removed columns or duplicate keys; distinct by plan hash",
		Gen: func(seed uint64, tier string) any {
			r := NewRand(seed)
			tb := GenTable(r.Sub("data"), GenOpts{MaxRows: 700, AllowNoPK: true, BigCells: r.Chance(0.1)})
			p := C19Plan{Table: tb, RunSize: Pick(r, []uint64{0, 1, 1, 16, 64, 300, 4096}), Feed: Pick(r, []string{"csv", "rows", "bare"})}
			if len(tb.PK) > 0 && r.Chance(0.4) {
				pk, _ := pkIndices(tb.Cols, tb.PK)
				for j := range tb.Cols {
					if !contains(pk, j) && r.Chance(0.5) {
						p.Removed = append(p.Removed, j)
					}
				}
			}
			return p
		},
		Exec: execC19,
	})
}

func feedSorter(p *C19Plan, cols []string, rows [][]string, pkNames []string, pk []int) (*sorter.Sorter, error) {
	runSize := p.RunSize
	if runSize == 0 {
		runSize = 1 << 40
	}
	s, err := sorter.NewSorter(sorter.WithRunSize(runSize))
	if err != nil {
		return nil, err
	}
	if p.Feed == "csv" {
		text := CSVText(cols, rows, ',')
		if err := s.SortFile(io.NopCloser(bytes.NewReader(text)), pkNames); err != nil {
			return s, err
		}
		return s, nil
	}
	if p.Feed != "bare" {
		s.SetColumns(cols)
	}
	s.PK = make([]uint32, len(pk))
	for i, u := range pk {
		s.PK[i] = uint32(u)
	}
	for _, r := range rows {
		if err := s.AddRow(r); err != nil {
			return s, err
		}
	}
	return s, nil
}

func execC19(t *testing.T, raw json.RawMessage, res *Result) {
	var p C19Plan
	if err := json.Unmarshal(raw, &p); err != nil {
		res.Invalid("plan: %v", err)
		return
	}
	if err := p.Table.Validate(); err != nil {
		res.Invalid("plan: %v", err)
		return
	}
	if p.Feed != "csv" && p.Feed != "rows" && p.Feed != "bare" {
		res.Invalid("feed")
		return
	}
	cols, rows := p.Table.Materialise()
	pkNames := make([]string, len(p.Table.PK))
	for i, s := range p.Table.PK {
		pkNames[i] = ToBytes(s)
	}
	if p.Feed == "csv" {
		var err error
		cols, rows, err = ParseCSV(CSVText(cols, rows, ','), ',')
		if err != nil {
			res.Invalid("csv: %v", err)
			return
		}
	}
	pk, err := pkIndices(cols, pkNames)
	if err != nil {
		res.Invalid("%v", err)
		return
	}
	if maxCellLen(rows) > 65535 {
		res.Invalid("oversize cell is C01's business")
		return
	}
	removed := map[int]struct{}{}
	for _, j := range p.Removed {
		if j < 0 || j >= len(cols) || contains(pk, j) || len(pk) == 0 {
			res.Invalid("bad removed column")
			return
		}
		removed[j] = struct{}{}
	}
	var remArg map[int]struct{}
	if len(removed) > 0 {
		remArg = removed
	}
	exp := IngestModel(cols, rows, pk)
	drop := func(r []string) []string {
		if len(removed) == 0 {
			return r
		}
		o := make([]string, 0, len(r))
		for j, c := range r {
			if _, ok := removed[j]; !ok {
				o = append(o, c)
			}
		}
		return o
	}
	check := func(which string, got [][]string) bool {
		if len(got) != len(exp.Keys) {
			cls := "row-dropped"
			if len(got) > len(exp.Keys) {
				cls = "row-duplicated"
			}
			res.Violate(which+"-"+cls, "%s output has %d rows, want %d distinct keys", which, len(got), len(exp.Keys))
			return false
		}
		for i, g := range got {
			ok := false
			for _, c := range exp.ByKey[keyStr(exp.Keys[i])] {
				if rowsEqual(drop(c), g) {
					ok = true
					break
				}
			}
			if !ok {
				// is it an ordering problem or an altered row?
				cls := "row-altered"
				for _, k := range exp.Keys {
					for _, c := range exp.ByKey[keyStr(k)] {
						if rowsEqual(drop(c), g) {
							cls = "order-wrong"
						}
					}
				}
				res.Violate(which+"-"+cls, "%s output row %d = %s, want a row with key %s (removed cols %v dropped)", which, i, clip(g), clip(exp.Keys[i]), p.Removed)
				return false
			}
		}
		return true
	}

	// blocks output
	s1, err := feedSorter(&p, cols, rows, pkNames, pk)
	if err != nil {
		res.Violate("sorter-error", "feeding sorter: %v", err)
		return
	}
	spills := countTmp()
	errCh := make(chan error, 1)
	var gotB [][]string
	off := 0
	for b := range s1.SortedBlocks(context.Background(), remArg, errCh) {
		br, err := decBlock(b.Block)
		if err != nil {
			res.Violate("blocks-undecodable", "block %d: %v", off, err)
			return
		}
		if b.Offset != off || b.RowsCount != len(br) || len(br) == 0 || len(br) > 255 {
			res.Violate("blocks-shape", "block offset %d (want %d), RowsCount %d, decoded %d rows", b.Offset, off, b.RowsCount, len(br))
			return
		}
		gotB = append(gotB, br...)
		off++
	}
	select {
	case err := <-errCh:
		res.Violate("sorter-error", "SortedBlocks: %v", err)
		return
	default:
	}
	if err := s1.Close(); err != nil {
		res.Violate("sorter-error", "Close: %v", err)
		return
	}
	if n := countTmp(); n != 0 {
		res.Violate("spill-file-left", "%d files left in the temp dir after Close (had %d spill files)", n, spills)
		return
	}
	// full blocks except last
	if len(gotB) > 0 && off != (len(gotB)+254)/255 {
		res.Violate("blocks-shape", "%d rows in %d blocks", len(gotB), off)
		return
	}
	if !check("blocks", gotB) {
		return
	}

	// rows output on an identically fed sorter
	s2, err := feedSorter(&p, cols, rows, pkNames, pk)
	if err != nil {
		res.Violate("sorter-error", "feeding sorter: %v", err)
		return
	}
	errCh2 := make(chan error, 1)
	var gotR [][]string
	for rs := range s2.SortedRows(context.Background(), remArg, errCh2) {
		for _, r := range rs.Rows {
			gotR = append(gotR, append([]string(nil), r...))
		}
	}
	select {
	case err := <-errCh2:
		res.Violate("sorter-error", "SortedRows: %v", err)
		return
	default:
	}
	s2.Close()
	if n := countTmp(); n != 0 {
		res.Violate("spill-file-left", "%d files left in the temp dir after Close", n)
		return
	}
	if !check("rows", gotR) {
		return
	}
	if exp.Unique {
		for i := range gotB {
			if !rowsEqual(gotB[i], gotR[i]) {
				res.Violate("outputs-differ", "row %d: blocks %s, rows %s", i, clip(gotB[i]), clip(gotR[i]))
				return
			}
		}
	}
	if spills > 0 {
		res.probe("spilled", 1)
		res.stat("spill_files", float64(spills))
		if spills > 1 {
			res.probe("multi_spill", 1)
		}
	}
	if len(removed) > 0 {
		res.probe("removed_cols", 1)
		for j := range removed {
			for _, u := range pk {
				if j < u {
					res.probe("removed_before_key", 1)
				}
			}
		}
	}
	if !exp.Unique {
		res.probe("duplicate_keys", 1)
	}
	if len(pk) == 0 {
		res.probe("keyless", 1)
	}
	res.Nontrivial = len(rows) >= 3 && (spills > 0 || len(removed) > 0 || !exp.Unique)
}
