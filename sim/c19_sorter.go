package sim

// C19: real sorter.Sorter at run sizes from "every row spills" to "nothing
// spills"; both outputs against the sort+dedupe model; spill files removed.

import (
	"bytes"
	"context"
	"encoding/json"
	"fmt"
	"io"
	"os"
	"path/filepath"
	"sort"
	"testing"

	"github.com/wrgl/wrgl/pkg/sorter"
)

type C19Plan struct {
	Table   TableSpec `json:"table"`
	RunSize uint64    `json:"run_size"`
	Removed []int     `json:"removed,omitempty"` // column indices to drop from the output
	Feed    string    `json:"feed"`              // "csv" (SortFile) | "rows" (SetColumns+AddRow) | "bare" (PK+AddRow only, as merge.RowCollector does)
	// SpillCut: after feeding, spill file number File (mod count) is cut to At bytes (mod size), moved off
	// row boundaries: a damaged temp file between spilling and merging
	SpillCut *SpillCut `json:"spill_cut,omitempty"`
	// FsizeLimit > 0: while the sorter is fed no file may grow beyond that many bytes (disk full / quota)
	FsizeLimit uint64 `json:"fsize_limit,omitempty"`
	// Reuse: the second pass runs on the same sorter: "close-reset" = Close, Reset, feed again, Close;
	// "reset" = Reset without closing first (as doctor and reingest do), feed again, Close
	Reuse string `json:"reuse,omitempty"`
	// FsizeWindow [a,b): the file-size limit holds only while rows a..b-1 are added; AddRow errors are ignored
	// and feeding goes on (as reingest and doctor's resolver do): every row accepted or refused with an error
	// must still be in both outputs once the disk has room again
	FsizeWindow []int `json:"fsize_window,omitempty"`
	// HeldRows: the plain-rows output is held by reference while the sorter is reset and used for another
	// table: the rows handed out earlier must not change
	HeldRows bool `json:"held_rows,omitempty"`
	// OtherWidth (with HeldRows): the table fed after the Reset has one column more (+1) or one less (-1) than the
	// first; its own output must be exactly its rows (a sorter reused for tables of different shapes, as doctor does)
	OtherWidth int `json:"other_width,omitempty"`
	// Synth (instead of Table): 256-800 distinct keys; DupEdge repeats the lines whose keys end or start a block in
	// key order (positions 254, 255, 509, 510, ...), so a duplicate is the first row met after a full block
	Synth   *SynthSpec `json:"synth,omitempty"`
	DupEdge bool       `json:"dup_edge,omitempty"`
}

type SpillCut struct {
	File int `json:"file"`
	At   int `json:"at"`
	// Tail: cut inside the last row of the file (At picks the byte). Used when the file is cut while it is
	// being read: a cut below the reader's position would act at that position, which may be a row
	// boundary no reader can tell from the end of the run; a cut inside the last row is either still
	// ahead of the reader (an unexpected EOF) or already behind it (no effect)
	Tail bool `json:"tail,omitempty"`
}

// cutSpill truncates one spill file inside a row. Returns false if there was nothing to cut.
func cutSpill(c *SpillCut) bool {
	d := os.Getenv("TMPDIR")
	es, _ := os.ReadDir(d)
	// spill file names are random: order the files by content
	type spill struct {
		path string
		data []byte
	}
	var files []spill
	for _, e := range es {
		if e.IsDir() {
			continue
		}
		p := filepath.Join(d, e.Name())
		if data, err := os.ReadFile(p); err == nil {
			files = append(files, spill{p, data})
		}
	}
	sort.Slice(files, func(i, j int) bool { return bytes.Compare(files[i].data, files[j].data) < 0 })
	if len(files) == 0 || c.File < 0 || c.At < 0 {
		return false
	}
	path, b := files[c.File%len(files)].path, files[c.File%len(files)].data
	if len(b) < 2 {
		return false
	}
	// row boundaries
	bound := map[int]bool{0: true}
	for off := 0; off < len(b); {
		_, n, err := decStrList(b[off:])
		if err != nil || n == 0 {
			break
		}
		off += n
		bound[off] = true
	}
	at := c.At % len(b)
	if c.Tail {
		last := 0
		for k := range bound {
			if k < len(b) && k > last {
				last = k
			}
		}
		if len(b)-last < 2 {
			return false
		}
		at = last + 1 + c.At%(len(b)-last-1)
	}
	for bound[at] {
		at++
	}
	if at >= len(b) {
		return false
	}
	return os.Truncate(path, int64(at)) == nil
}

func init() {
	Register(&Profile{
		ID: "C19", Prop: "C19",
		Rule: "generated row multisets (duplicate keys, composite keys with tying first component, keyless) x run size 1..inf (0..k spill files) x removed-column sets x feed path (SortFile / AddRow); non-trivial = >=3 rows and >=1 spill file or removed columns or duplicate keys; distinct by plan hash",
		Gen: func(seed uint64, tier string) any {
			r := NewRand(seed)
			tb := GenTable(r.Sub("data"), GenOpts{MaxRows: 700, AllowNoPK: true, BigCells: r.Chance(0.1)})
			p := C19Plan{Table: tb, RunSize: Pick(r, []uint64{0, 1, 1, 16, 64, 300, 4096}), Feed: Pick(r, []string{"csv", "rows", "bare"})}
			if p.RunSize > 0 && r.Chance(0.1) {
				p.FsizeLimit = Pick(r, []uint64{1, 7, 60, 300, 1000, 4000, 20000})
			} else if p.RunSize > 0 && r.Chance(0.15) {
				p.SpillCut = &SpillCut{File: r.Intn(8), At: r.Intn(100000)}
				if r.Chance(0.5) {
					p.SpillCut.At = r.Intn(12) // inside the first row header / first cells
				}
			}
			if p.FsizeLimit == 0 && p.SpillCut == nil && r.Chance(0.25) {
				p.Reuse = Pick(r, []string{"close-reset", "reset"})
			}
			if p.RunSize > 0 && p.SpillCut == nil && p.Reuse == "" && len(tb.Rows) >= 4 && r.Chance(0.12) {
				a := r.Intn(len(tb.Rows))
				p.FsizeLimit, p.FsizeWindow, p.Feed = Pick(r, []uint64{1, 7, 60, 300}), []int{a, a + r.Range(1, len(tb.Rows)-a)}, Pick(r, []string{"rows", "bare"})
			} else if p.FsizeLimit == 0 && p.SpillCut == nil && p.Reuse == "" && r.Chance(0.1) {
				p.HeldRows = true
				p.OtherWidth = Pick(r, []int{0, 1, 1, -1, -1})
			}
			if r.Chance(0.06) {
				s := SynthSpec{N: Pick(r, []int{255, 256, 257, 300, 510, 511, 600, 800}), NCols: r.Range(2, 4), Seed: r.Uint64()}
				p = C19Plan{Synth: &s, DupEdge: r.Chance(0.8), RunSize: Pick(r, []uint64{0, 0, 64, 4096, 1 << 20}), Feed: Pick(r, []string{"csv", "rows", "bare"})}
				return p
			}
			if len(tb.PK) > 0 && r.Chance(0.4) {
				pk, _ := pkIndices(tb.Cols, tb.PK)
				for j := range tb.Cols {
					if !contains(pk, j) && r.Chance(0.5) {
						p.Removed = append(p.Removed, j)
					}
				}
			}
			return p
		},
		Exec: execC19,
	})
}

func feedSorter(p *C19Plan, cols []string, rows [][]string, pkNames []string, pk []int) (*sorter.Sorter, error) {
	return feedSorterInto(nil, p, cols, rows, pkNames, pk)
}

func feedSorterInto(s *sorter.Sorter, p *C19Plan, cols []string, rows [][]string, pkNames []string, pk []int) (*sorter.Sorter, error) {
	runSize := p.RunSize
	if runSize == 0 {
		runSize = 1 << 40
	}
	if s == nil {
		var err error
		s, err = sorter.NewSorter(sorter.WithRunSize(runSize))
		if err != nil {
			return nil, err
		}
	}
	if p.Feed == "csv" {
		text := CSVText(cols, rows, ',')
		if err := s.SortFile(io.NopCloser(bytes.NewReader(text)), pkNames); err != nil {
			return s, err
		}
		return s, nil
	}
	if p.Feed != "bare" {
		s.SetColumns(cols)
	}
	s.PK = make([]uint32, len(pk))
	for i, u := range pk {
		s.PK[i] = uint32(u)
	}
	for _, r := range rows {
		if err := s.AddRow(r); err != nil {
			return s, err
		}
	}
	return s, nil
}

func execC19(t *testing.T, raw json.RawMessage, res *Result) {
	var p C19Plan
	if err := json.Unmarshal(raw, &p); err != nil {
		res.Invalid("plan: %v", err)
		return
	}
	if p.Synth != nil {
		p.Table = TableSpec{Cols: []string{"x"}}
	}
	if err := p.Table.Validate(); err != nil {
		res.Invalid("plan: %v", err)
		return
	}
	if p.Feed != "csv" && p.Feed != "rows" && p.Feed != "bare" {
		res.Invalid("feed")
		return
	}
	cleanTmp()
	defer cleanTmp()
	cols, rows := p.Table.Materialise()
	pkNames := make([]string, len(p.Table.PK))
	for i, s := range p.Table.PK {
		pkNames[i] = ToBytes(s)
	}
	if p.Synth != nil {
		if p.Synth.N < 0 || p.Synth.N > 3000 || p.Synth.NCols < 1 || p.Synth.NCols > 8 {
			res.Invalid("synth")
			return
		}
		cols, pkNames, rows = p.Synth.Build()
		if p.DupEdge {
			rows = withEdgeDuplicates(cols, pkNames, rows)
			res.probe("duplicates_at_block_edges", 1)
		}
	}
	if p.Feed == "csv" {
		var err error
		cols, rows, err = ParseCSV(CSVText(cols, rows, ','), ',')
		if err != nil {
			res.Invalid("csv: %v", err)
			return
		}
	}
	pk, err := pkIndices(cols, pkNames)
	if err != nil {
		res.Invalid("%v", err)
		return
	}
	if maxCellLen(rows) > 65535 {
		res.Invalid("oversize cell is C01's business")
		return
	}
	removed := map[int]struct{}{}
	for _, j := range p.Removed {
		if j < 0 || j >= len(cols) || contains(pk, j) || len(pk) == 0 {
			res.Invalid("bad removed column")
			return
		}
		removed[j] = struct{}{}
	}
	var remArg map[int]struct{}
	if len(removed) > 0 {
		remArg = removed
	}
	exp := IngestModel(cols, rows, pk)
	drop := func(r []string) []string {
		if len(removed) == 0 {
			return r
		}
		o := make([]string, 0, len(r))
		for j, c := range r {
			if _, ok := removed[j]; !ok {
				o = append(o, c)
			}
		}
		return o
	}
	check := func(which string, got [][]string) bool {
		if len(got) != len(exp.Keys) {
			cls := "row-dropped"
			if len(got) > len(exp.Keys) {
				cls = "row-duplicated"
			}
			res.Violate(which+"-"+cls, "%s output has %d rows, want %d distinct keys", which, len(got), len(exp.Keys))
			return false
		}
		for i, g := range got {
			ok := false
			for _, c := range exp.ByKey[keyStr(exp.Keys[i])] {
				if rowsEqual(drop(c), g) {
					ok = true
					break
				}
			}
			if !ok {
				// is it an ordering problem or an altered row?
				cls := "row-altered"
				for _, k := range exp.Keys {
					for _, c := range exp.ByKey[keyStr(k)] {
						if rowsEqual(drop(c), g) {
							cls = "order-wrong"
						}
					}
				}
				res.Violate(which+"-"+cls, "%s output row %d = %s, want a row with key %s (removed cols %v dropped)", which, i, clip(g), clip(exp.Keys[i]), p.Removed)
				return false
			}
		}
		return true
	}

	if len(p.FsizeWindow) > 0 {
		execC19Window(&p, res, cols, rows, pk, remArg, check)
		return
	}
	if p.HeldRows {
		execC19Held(&p, res, cols, rows, pkNames, pk, remArg, check)
		return
	}
	// blocks output
	var s1 *sorter.Sorter
	feed1 := func() { s1, err = feedSorter(&p, cols, rows, pkNames, pk) }
	fsArmed := false
	if p.FsizeLimit > 0 {
		fsArmed = withFsizeLimit(p.FsizeLimit, feed1)
	} else {
		feed1()
	}
	if err != nil {
		if fsArmed && isFileTooLarge(err) {
			// a spill file could not be written in full: the error is the right answer; the
			// sorter must still clean up after itself
			res.fault("spill_write_error", 1)
			if s1 != nil {
				s1.Close()
			}
			if n := countTmp(); n != 0 {
				res.Violate("spill-file-left", "%d files left in the temp dir after a failed spill (file size limit %d) and Close", n, p.FsizeLimit)
				return
			}
			res.Nontrivial = true
			return
		}
		res.Violate("sorter-error", "feeding sorter: %v", err)
		return
	}
	spills := countTmp()
	cut := false
	if p.SpillCut != nil {
		cut = cutSpill(p.SpillCut)
	}
	errCh := make(chan error, 1)
	var gotB [][]string
	off := 0
	for b := range s1.SortedBlocks(context.Background(), remArg, errCh) {
		br, err := decBlock(b.Block)
		if err != nil {
			res.Violate("blocks-undecodable", "block %d: %v", off, err)
			return
		}
		if b.Offset != off || b.RowsCount != len(br) || len(br) == 0 || len(br) > 255 {
			res.Violate("blocks-shape", "block offset %d (want %d), RowsCount %d, decoded %d rows", b.Offset, off, b.RowsCount, len(br))
			return
		}
		if len(pk) > 0 {
			// a block is announced under the key of its first row (ingest stores it as the table-index entry)
			first := make([]string, len(pk))
			for x, j := range pk {
				at := j
				for g := range removed {
					if g < j {
						at--
					}
				}
				if at < len(br[0]) {
					first[x] = br[0][at]
				}
			}
			if !rowsEqual(b.PK, first) {
				res.Violate("blocks-key-wrong", "block %d is announced under key %s but its first row has key %s", off, clip(b.PK), clip(first))
				return
			}
		}
		gotB = append(gotB, br...)
		off++
	}
	blocksErr := false
	select {
	case err := <-errCh:
		if !cut {
			res.Violate("sorter-error", "SortedBlocks: %v", err)
			return
		}
		blocksErr = true
		res.probe("spill_damage_reported_blocks", 1)
	default:
	}
	if p.Reuse != "" && p.Reuse != "close-reset" && p.Reuse != "reset" {
		res.Invalid("reuse")
		return
	}
	if p.Reuse != "reset" {
		if err := s1.Close(); err != nil {
			res.Violate("sorter-error", "Close: %v", err)
			return
		}
		if n := countTmp(); n != 0 {
			res.Violate("spill-file-left", "%d files left in the temp dir after Close (had %d spill files)", n, spills)
			return
		}
	}
	// full blocks except last
	if !blocksErr {
		if len(gotB) > 0 && off != (len(gotB)+254)/255 {
			res.Violate("blocks-shape", "%d rows in %d blocks", len(gotB), off)
			return
		}
		which := "blocks"
		if cut {
			which = "damaged-spill-silent-blocks" // no error was reported: then nothing may be missing
		}
		if !check(which, gotB) {
			return
		}
	}

	// rows output on an identically fed sorter (a new one, or the same one used again)
	var s2 *sorter.Sorter
	if p.Reuse != "" && !cut && p.FsizeLimit == 0 {
		s1.Reset()
		s2, err = feedSorterInto(s1, &p, cols, rows, pkNames, pk)
		res.probe("sorter_reused_"+p.Reuse, 1)
	} else {
		if p.Reuse == "reset" {
			s1.Close()
		}
		s2, err = feedSorter(&p, cols, rows, pkNames, pk)
	}
	if err != nil {
		res.Violate("sorter-error", "feeding sorter: %v", err)
		return
	}
	cut2 := false
	if p.SpillCut != nil {
		cut2 = cutSpill(p.SpillCut)
	}
	errCh2 := make(chan error, 1)
	var gotR [][]string
	for rs := range s2.SortedRows(context.Background(), remArg, errCh2) {
		for _, r := range rs.Rows {
			gotR = append(gotR, append([]string(nil), r...))
		}
	}
	rowsErr := false
	select {
	case err := <-errCh2:
		if !cut2 {
			res.Violate("sorter-error", "SortedRows: %v", err)
			return
		}
		rowsErr = true
		res.probe("spill_damage_reported_rows", 1)
	default:
	}
	if err := s2.Close(); err != nil {
		res.Violate("sorter-error", "Close after the rows pass (reuse %q): %v", p.Reuse, err)
		return
	}
	if n := countTmp(); n != 0 {
		res.Violate("spill-file-left", "%d files left in the temp dir after Close", n)
		return
	}
	if cut || cut2 {
		res.fault("spill_file_truncated", 1)
		if !rowsErr {
			if !check("damaged-spill-silent-rows", gotR) {
				return
			}
		}
		res.Nontrivial = true
		return
	}
	if !check("rows", gotR) {
		return
	}
	{
		for i := range gotB {
			if !rowsEqual(gotB[i], gotR[i]) {
				res.Violate("outputs-differ", "row %d: blocks %s, rows %s", i, clip(gotB[i]), clip(gotR[i]))
				return
			}
		}
	}
	if spills > 0 {
		res.probe("spilled", 1)
		res.stat("spill_files", float64(spills))
		if spills > 1 {
			res.probe("multi_spill", 1)
		}
	}
	if len(removed) > 0 {
		res.probe("removed_cols", 1)
		for j := range removed {
			for _, u := range pk {
				if j < u {
					res.probe("removed_before_key", 1)
				}
			}
		}
	}
	if !exp.Unique {
		res.probe("duplicate_keys", 1)
	}
	if len(pk) == 0 {
		res.probe("keyless", 1)
	}
	res.Nontrivial = len(rows) >= 3 && (spills > 0 || len(removed) > 0 || !exp.Unique)
}

// cleanTmp empties the worker's private temp dir (spill files of a case that ended early).
func cleanTmp() {
	d := os.Getenv("VERIF_TMP") // the worker's private temp dir (TMPDIR is set to it in TestMain)
	if d == "" || d != os.Getenv("TMPDIR") {
		return
	}
	es, _ := os.ReadDir(d)
	for _, e := range es {
		os.RemoveAll(filepath.Join(d, e.Name()))
	}
}

// execC19Window: rows are added one by one; while rows a..b-1 arrive no file may grow beyond the limit
// (spills fail), errors of AddRow are ignored and feeding goes on; afterwards both outputs must be complete.
func execC19Window(p *C19Plan, res *Result, cols []string, rows [][]string, pk []int, remArg map[int]struct{}, check func(string, [][]string) bool) {
	if len(p.FsizeWindow) != 2 || p.FsizeWindow[0] < 0 || p.FsizeWindow[1] < p.FsizeWindow[0] || p.FsizeLimit == 0 || p.Feed == "csv" {
		res.Invalid("fsize_window")
		return
	}
	build := func() (*sorter.Sorter, int, error) {
		rs := p.RunSize
		if rs == 0 {
			rs = 1 << 40
		}
		s, err := sorter.NewSorter(sorter.WithRunSize(rs))
		if err != nil {
			return nil, 0, err
		}
		if p.Feed != "bare" {
			s.SetColumns(cols)
		}
		s.PK = make([]uint32, len(pk))
		for i, u := range pk {
			s.PK[i] = uint32(u)
		}
		failed := 0
		for i, r := range rows {
			add := func() {
				if err := s.AddRow(r); err != nil {
					failed++
				}
			}
			if i >= p.FsizeWindow[0] && i < p.FsizeWindow[1] {
				withFsizeLimit(p.FsizeLimit, add)
			} else {
				add()
			}
		}
		return s, failed, nil
	}
	s1, failed, err := build()
	if err != nil {
		res.Invalid("%v", err)
		return
	}
	if failed > 0 {
		res.fault("spill_write_error", failed)
		res.probe("feeding_continued_after_failed_spill", 1)
	}
	errCh := make(chan error, 1)
	var gotB [][]string
	for b := range s1.SortedBlocks(context.Background(), remArg, errCh) {
		br, err := decBlock(b.Block)
		if err != nil {
			res.Violate("blocks-undecodable", "%v", err)
			return
		}
		gotB = append(gotB, br...)
	}
	select {
	case err := <-errCh:
		res.Violate("sorter-error", "SortedBlocks after a failed spill that was followed by successful ones: %v", err)
		return
	default:
	}
	if err := s1.Close(); err != nil {
		res.Violate("sorter-error", "Close: %v", err)
		return
	}
	if n := countTmp(); n != 0 {
		res.Violate("spill-file-left", "%d files left in the temp dir after Close", n)
		return
	}
	if !check("after-failed-spill-blocks", gotB) {
		return
	}
	s2, _, err := build()
	if err != nil {
		res.Invalid("%v", err)
		return
	}
	errCh2 := make(chan error, 1)
	var gotR [][]string
	for rs := range s2.SortedRows(context.Background(), remArg, errCh2) {
		for _, r := range rs.Rows {
			gotR = append(gotR, append([]string(nil), r...))
		}
	}
	select {
	case err := <-errCh2:
		res.Violate("sorter-error", "SortedRows after a failed spill: %v", err)
		return
	default:
	}
	s2.Close()
	if n := countTmp(); n != 0 {
		res.Violate("spill-file-left", "%d files left in the temp dir after Close", n)
		return
	}
	if !check("after-failed-spill-rows", gotR) {
		return
	}
	res.Nontrivial = failed > 0
}

// execC19Held: the rows of the plain-rows output are kept as handed out (no copy) while the sorter is reset and
// fed another table; they must still be the first table's rows afterwards.
func execC19Held(p *C19Plan, res *Result, cols []string, rows [][]string, pkNames []string, pk []int, remArg map[int]struct{}, check func(string, [][]string) bool) {
	s1, err := feedSorter(p, cols, rows, pkNames, pk)
	if err != nil {
		res.Violate("sorter-error", "feeding sorter: %v", err)
		return
	}
	errCh := make(chan error, 1)
	var held [][]string
	for rs := range s1.SortedRows(context.Background(), remArg, errCh) {
		held = append(held, rs.Rows...) // by reference, as a consumer collecting batches does
	}
	select {
	case err := <-errCh:
		res.Violate("sorter-error", "SortedRows: %v", err)
		return
	default:
	}
	if !check("rows", held) {
		return
	}
	// another table through the same sorter: the same rows with every cell marked
	other := make([][]string, len(rows))
	for i := len(rows) - 1; i >= 0; i-- {
		o := make([]string, len(rows[i]))
		for j, c := range rows[i] {
			o[j] = "o" + c
			if len(o[j]) > 65535 {
				o[j] = c[:len(c)-1] + "o"
			}
		}
		other[len(rows)-1-i] = o
	}
	cols2 := cols
	if p.OtherWidth < -1 || p.OtherWidth > 1 {
		res.Invalid("other width")
		return
	}
	widthChanged := false
	if remArg == nil && p.OtherWidth == 1 {
		cols2 = append(append([]string(nil), cols...), "extra_w")
		for i := range other {
			other[i] = append(other[i], fmt.Sprintf("w%d", i))
		}
		widthChanged = true
	} else if remArg == nil && p.OtherWidth == -1 && len(cols) >= 2 && !contains(pk, len(cols)-1) && len(pk) > 0 {
		cols2 = append([]string(nil), cols[:len(cols)-1]...)
		for i := range other {
			other[i] = other[i][:len(other[i])-1]
		}
		widthChanged = true
	}
	s1.Reset()
	if _, err := feedSorterInto(s1, p, cols2, other, pkNames, pk); err != nil {
		res.Violate("sorter-error", "feeding the reused sorter: %v", err)
		return
	}
	errCh2 := make(chan error, 1)
	if widthChanged {
		var got2 [][]string
		for rs := range s1.SortedRows(context.Background(), remArg, errCh2) {
			for _, r := range rs.Rows {
				got2 = append(got2, append([]string(nil), r...))
			}
		}
		select {
		case err := <-errCh2:
			res.Violate("sorter-error", "SortedRows of the second table: %v", err)
			return
		default:
		}
		in2 := other
		if p.Feed == "csv" {
			_, in2, _ = ParseCSV(CSVText(cols2, other, ','), ',')
		}
		exp2 := IngestModel(cols2, in2, pk)
		tpk := make([]uint32, len(pk))
		for i, u := range pk {
			tpk[i] = uint32(u)
		}
		if exp2.Unique {
			if c, d := exp2.Compare(cols2, tpk, got2); c != "" && c != "pk-differ" && c != "columns-differ" {
				res.Violate("rows-reused-sorter-"+c, "a sorter that sorted a table of %d columns (run size %d) was reset and fed a table of %d columns: its output is not that table's rows: %s", len(cols), p.RunSize, len(cols2), d)
				return
			}
		}
		res.probe("reused_sorter_other_width", 1)
	} else {
		for range s1.SortedBlocks(context.Background(), remArg, errCh2) {
		}
	}
	if err := s1.Close(); err != nil {
		res.Violate("sorter-error", "Close: %v", err)
		return
	}
	if n := countTmp(); n != 0 {
		res.Violate("spill-file-left", "%d files left in the temp dir after Close", n)
		return
	}
	if !check("rows-held-across-reuse", held) {
		return
	}
	res.probe("rows_held_across_sorter_reuse", 1)
	res.Nontrivial = len(rows) >= 3
}
