package sim

import (
	"hash/fnv"
	"math/rand/v2"
)

// Rand is the only source of randomness in the harness. Sub-streams are
// derived by label so a new draw in one component does not shift another.
type Rand struct {
	*rand.Rand
	seed uint64
}

func NewRand(seed uint64) *Rand {
	return &Rand{Rand: rand.New(rand.NewPCG(seed, seed^0x9e3779b97f4a7c15)), seed: seed}
}

func (r *Rand) Sub(label string) *Rand {
	h := fnv.New64a()
	h.Write([]byte(label))
	return NewRand(r.seed*0x100000001b3 ^ h.Sum64())
}

func (r *Rand) Intn(n int) int {
	if n <= 0 {
		return 0
	}
	return r.Rand.IntN(n)
}

// Range returns an int in [lo,hi].
func (r *Rand) Range(lo, hi int) int {
	if hi <= lo {
		return lo
	}
	return lo + r.Intn(hi-lo+1)
}

func (r *Rand) Chance(p float64) bool { return r.Float64() < p }

func Pick[T any](r *Rand, xs []T) T { return xs[r.Intn(len(xs))] }

func (r *Rand) Perm(n int) []int { return r.Rand.Perm(n) }

// Read fills b (used as a deterministic uuid source).
func (r *Rand) Read(b []byte) (int, error) {
	for i := range b {
		b[i] = byte(r.Rand.Uint32())
	}
	return len(b), nil
}
