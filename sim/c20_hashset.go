package sim

// C20: index.HashSet over a simulated file vs a Go map.

import (
	"bytes"
	"encoding/binary"
	"encoding/json"
	"fmt"
	"os"
	"testing"

	"github.com/wrgl/wrgl/pkg/index"
)

type C20Op struct {
	Op string `json:"op"` // add | flush | has | len | reopen | bulk | fault (the H-th read from now fails once; disarmed at the next flush / reopen)
	H  int    `json:"h,omitempty"`
	// reopen: How = 0 fresh handle at offset 0; 1 handle positioned at the end of the file (as after measuring
	// it); 2 the same handle again without closing (a second HashSet over a handle an earlier one flushed through)
	How int `json:"how,omitempty"`
	// bulk: add N further pseudo-random hashes (bulkHash(base..base+N))
	N int `json:"n,omitempty"`
	// bulk: FB > 0 forces the first byte of these hashes to FB-1 (hundreds of new entries in one fan-out bucket)
	FB int `json:"fb,omitempty"`
	// flush: Fail > 0 makes the Fail-th read inside this Flush fail once; the caller then flushes again
	Fail int `json:"fail,omitempty"`
}

func bulkHash(k int) []byte { return meowSum([]byte(fmt.Sprintf("bulk-%d", k))) }

type C20Plan struct {
	Batch    uint32  `json:"batch"` // 0 = default
	Ops      []C20Op `json:"ops"`
	RealFile bool    `json:"real_file,omitempty"`
}

var c20FirstBytes = []byte{0x00, 0x01, 0x7f, 0xfe, 0xff}

// hashFromIndex maps 0..64 to a 16-byte hash: 5 first bytes x 13 tails.
func hashFromIndex(i int) []byte {
	if i < 0 {
		i = -i
	}
	i %= 65
	h := make([]byte, 16)
	h[0] = c20FirstBytes[i%5]
	t := i / 5
	switch {
	case t == 0: // all zero tail
	case t == 1:
		for k := 1; k < 16; k++ {
			h[k] = 0xff
		}
	case t == 2:
		h[15] = 1
	case t == 3:
		h[1] = 1
	default:
		h[1] = byte(t * 17)
		h[8] = byte(t)
		h[15] = byte(255 - t)
	}
	return h
}

func init() {
	Register(&Profile{
		ID: "C20", Prop: "C20",
		Rule: "sequences of Add/Flush/Has/Len/reopen (<=200 steps) over a 65-hash space (first bytes 00,01,7f,fe,ff x 13 tails) x batch size 1..8/default, on a simulated file (thorough: also a real temp file), with 200-690 new hashes sharing one first byte in a single flush, transient read errors in Add/Has (retried) and inside Flush before its first write (flushed again); non-trivial = >=2 flushes with >=1 repeat add and >=1 reopen or >=10 distinct members; distinct by plan hash",
		Gen: func(seed uint64, tier string) any {
			r := NewRand(seed)
			p := C20Plan{Batch: Pick(r, []uint32{1, 2, 3, 4, 8, 0, 0})}
			n := r.Range(1, 200)
			if r.Chance(0.5) {
				n = r.Range(1, 25)
			}
			space := Pick(r, []int{3, 8, 20, 65})
			for i := 0; i < n; i++ {
				x := r.Intn(100)
				switch {
				case x < 60:
					p.Ops = append(p.Ops, C20Op{Op: "add", H: r.Intn(space)})
				case x < 72:
					p.Ops = append(p.Ops, C20Op{Op: "flush"})
				case x < 90:
					p.Ops = append(p.Ops, C20Op{Op: "has", H: r.Intn(65)})
				case x < 94:
					p.Ops = append(p.Ops, C20Op{Op: "len"})
				default:
					p.Ops = append(p.Ops, C20Op{Op: "reopen"})
				}
			}
			if r.Chance(0.04) {
				// a large set (more than 4096 entries, the size of an I/O chunk) receiving small batches
				p.Batch = Pick(r, []uint32{0, 4096, 700})
				ops := []C20Op{{Op: "bulk", N: r.Range(4200, 11000)}, {Op: "flush"}}
				for k := r.Range(1, 4); k > 0; k-- {
					for j := r.Range(1, 5); j > 0; j-- {
						if r.Chance(0.5) {
							ops = append(ops, C20Op{Op: "bulk", N: 1})
						} else {
							ops = append(ops, C20Op{Op: "add", H: r.Intn(65)})
						}
					}
					ops = append(ops, C20Op{Op: Pick(r, []string{"flush", "flush", "reopen"}), How: r.Intn(3)})
				}
				p.Ops = ops
			}
			if r.Chance(0.05) {
				// hundreds of new hashes sharing their first byte arrive in one flush
				p.Batch = Pick(r, []uint32{0, 4096, 700})
				var ops []C20Op
				if r.Chance(0.5) {
					ops = append(ops, C20Op{Op: "bulk", N: r.Range(1, 600)}, C20Op{Op: "flush"})
				}
				for k := r.Range(1, 3); k > 0; k-- {
					ops = append(ops, C20Op{Op: "bulk", N: Pick(r, []int{255, 256, 257, 300, 511, 512, 513, r.Range(200, 690)}), FB: 1 + Pick(r, []int{0, 1, 0x42, 0x7f, 0xfe, 0xff})})
					if r.Chance(0.5) {
						ops = append(ops, C20Op{Op: "add", H: r.Intn(65)})
					}
					ops = append(ops, C20Op{Op: Pick(r, []string{"flush", "flush", "reopen"})})
				}
				p.Ops = ops
			}
			for i := range p.Ops {
				if p.Ops[i].Op == "reopen" {
					p.Ops[i].How = r.Intn(3)
				}
				if p.Ops[i].Op == "flush" && r.Chance(0.15) {
					p.Ops[i].Fail = r.Range(1, 10)
				}
			}
			if p.Batch == 0 && r.Chance(0.35) && len(p.Ops) > 3 {
				// transient read errors while adding and asking (simulated file only)
				for k := r.Range(1, 4); k > 0; k-- {
					at := r.Intn(len(p.Ops))
					p.Ops = append(p.Ops[:at:at], append([]C20Op{{Op: "fault", H: r.Range(1, 12)}}, p.Ops[at:]...)...)
				}
			}
			if tier == "thorough" && r.Chance(0.2) {
				p.RealFile = true
			}
			return p
		},
		Exec: execC20,
	})
}

func execC20(t *testing.T, raw json.RawMessage, res *Result) {
	var p C20Plan
	if err := json.Unmarshal(raw, &p); err != nil {
		res.Invalid("plan: %v", err)
		return
	}
	if len(p.Ops) > 2000 || p.Batch > 100000 {
		res.Invalid("plan too large")
		return
	}
	var sf *SimFile
	var rf *os.File
	var open func() (index.ReadWriteSeekCloser, error)
	var content func() []byte
	if p.RealFile {
		f, err := os.CreateTemp("", "c20-*")
		if err != nil {
			res.Invalid("%v", err)
			return
		}
		name := f.Name()
		defer os.Remove(name)
		rf = f
		first := true
		open = func() (index.ReadWriteSeekCloser, error) {
			if first {
				first = false
				return rf, nil
			}
			f, err := os.OpenFile(name, os.O_RDWR, 0644)
			rf = f
			return f, err
		}
		content = func() []byte { b, _ := os.ReadFile(name); return b }
	} else {
		sf = NewSimFile()
		open = func() (index.ReadWriteSeekCloser, error) { sf = sf.Reopen(); return sf, nil }
		content = func() []byte { return *sf.Data }
	}
	f, _ := open()
	hs, err := index.NewHashSet(f, p.Batch)
	if err != nil {
		res.Violate("hashset-error", "NewHashSet: %v", err)
		return
	}
	flushed := map[string]bool{} // members visible after the last flush
	pending := map[string]bool{} // added since
	flushes, repeats, reopens := 0, 0, 0

	bulkNext := 0
	checkAll := func(when string) bool {
		probe := make([][]byte, 0, 65+len(flushed)+8)
		for i := 0; i < 65; i++ {
			probe = append(probe, hashFromIndex(i))
		}
		if bulkNext > 0 {
			for k := range flushed {
				probe = append(probe, []byte(k))
			}
			for k := 0; k < 8; k++ {
				probe = append(probe, bulkHash(bulkNext+k)) // never added
			}
		}
		for _, h := range probe {
			ok, err := hs.Has(h)
			if err != nil {
				res.Violate("hashset-error", "%s: Has(%x): %v", when, h, err)
				return false
			}
			if ok != flushed[string(h)] {
				cls := "false-negative"
				if ok {
					cls = "false-positive"
				}
				res.Violate(cls, "%s: Has(%x)=%v, model says %v", when, h, ok, flushed[string(h)])
				return false
			}
		}
		if hs.Len() != len(flushed) {
			res.Violate("len-wrong", "%s: Len()=%d, model has %d members", when, hs.Len(), len(flushed))
			return false
		}
		// on-file invariants
		b := content()
		if len(flushed) == 0 && len(b) == 0 {
			return true
		}
		if len(b) < 1024 {
			res.Violate("file-layout", "%s: file has %d bytes, fan-out table needs 1024", when, len(b))
			return false
		}
		n := len(flushed)
		if len(b) < 1024+16*n {
			res.Violate("file-layout", "%s: file has %d bytes for %d entries", when, len(b), n)
			return false
		}
		var prev []byte
		cnt := [256]int{}
		for i := 0; i < n; i++ {
			e := b[1024+16*i : 1024+16*(i+1)]
			if prev != nil && bytes.Compare(prev, e) >= 0 {
				res.Violate("file-not-sorted", "%s: entry %d %x does not follow %x", when, i, e, prev)
				return false
			}
			if !flushed[string(e)] {
				res.Violate("file-foreign-entry", "%s: entry %d %x was never added", when, i, e)
				return false
			}
			prev = e
			cnt[e[0]]++
		}
		acc := 0
		for k := 0; k < 256; k++ {
			acc += cnt[k]
			fo := int(binary.BigEndian.Uint32(b[4*k:]))
			if fo != acc {
				res.Violate("fanout-wrong", "%s: fanout[%#x]=%d, entries with first byte <= %#x: %d", when, k, fo, k, acc)
				return false
			}
		}
		return true
	}

	// loud runs f; an error or a panic of the hash set both count as a loud failure
	loud := func(f func() error) (err error) {
		defer func() {
			if e := recover(); e != nil {
				err = fmt.Errorf("panic: %v", e)
			}
		}()
		return f()
	}
	disarm := func() {
		if sf != nil {
			sf.FailReadIn = 0
		}
	}
	faulted := func() bool { return sf != nil && sf.ReadFaults > 0 }
	for i, op := range p.Ops {
		switch op.Op {
		case "fault":
			if p.RealFile || sf == nil || p.Batch != 0 {
				continue // only where Add never flushes by itself: a read error inside a flush is another matter
			}
			if op.H < 1 || op.H > 1000 {
				res.Invalid("fault")
				return
			}
			sf.FailReadIn = op.H
		case "add":
			h := hashFromIndex(op.H) // fresh slice per Add
			if flushed[string(h)] || pending[string(h)] {
				repeats++
			}
			err := loud(func() error { return hs.Add(h) })
			for tries := 0; err != nil && faulted() && tries < 3; tries++ {
				// a read error was reported: the caller tries again, and the hash must then be in
				res.probe("add_retried_after_read_error", 1)
				err = loud(func() error { return hs.Add(hashFromIndex(op.H)) })
			}
			if err != nil {
				res.Violate("hashset-error", "op %d Add: %v", i, err)
				return
			}
			pending[string(h)] = true
			bs := int(p.Batch)
			if bs == 0 {
				bs = 1024
			}
			// Add flushes by itself when the batch is full; find out by asking Len
			// only through the model: the batch holds pending entries not yet on file.
			_ = bs
		case "bulk":
			disarm()
			if op.N < 0 || op.N > 20000 || bulkNext+op.N > 60000 || op.FB < 0 || op.FB > 256 {
				res.Invalid("bulk")
				return
			}
			for k := 0; k < op.N; k++ {
				h := bulkHash(bulkNext)
				if op.FB > 0 {
					h[0] = byte(op.FB - 1)
				}
				bulkNext++
				if err := hs.Add(h); err != nil {
					res.Violate("hashset-error", "op %d Add: %v", i, err)
					return
				}
				pending[string(h)] = true
			}
		case "flush":
			disarm()
			if op.Fail < 0 || op.Fail > 100000 {
				res.Invalid("flush fail")
				return
			}
			if op.Fail > 0 && sf != nil {
				// a read fails inside the flush. While nothing has been written yet (the lookups of the insert
				// positions) the failed flush has changed nothing, and flushing again must store every pending hash.
				w0, f0 := sf.Writes, sf.ReadFaults
				sf.FailReadIn = op.Fail
				err := loud(func() error { return hs.Flush() })
				disarm()
				if err != nil {
					if sf.ReadFaults == f0 {
						res.Violate("hashset-error", "op %d Flush: %v", i, err)
						return
					}
					res.fault("read_error_in_flush", 1)
					if sf.Writes != w0 {
						// entries were already being moved: the statement promises nothing about this file any more
						res.probe("flush_failed_after_first_write", 1)
						return
					}
					res.probe("flush_failed_before_first_write", 1)
				}
			}
			if err := hs.Flush(); err != nil {
				res.Violate("hashset-error", "op %d Flush: %v", i, err)
				return
			}
			for k := range pending {
				flushed[k] = true
			}
			pending = map[string]bool{}
			flushes++
			if !checkAll(fmt.Sprintf("after op %d (flush)", i)) {
				return
			}
		case "has":
			h := hashFromIndex(op.H)
			var ok bool
			err := loud(func() (e error) { ok, e = hs.Has(h); return })
			for tries := 0; err != nil && faulted() && tries < 3; tries++ {
				res.probe("has_retried_after_read_error", 1)
				err = loud(func() (e error) { ok, e = hs.Has(h); return })
			}
			if err != nil {
				res.Violate("hashset-error", "op %d Has: %v", i, err)
				return
			}
			// between flushes: flushed members must be found; never-added ones must not
			if flushed[string(h)] && !ok {
				res.Violate("false-negative", "op %d: Has(%x)=false for a flushed member", i, h)
				return
			}
			if !flushed[string(h)] && !pending[string(h)] && ok {
				res.Violate("false-positive", "op %d: Has(%x)=true for a hash never added", i, h)
				return
			}
		case "len":
			n := hs.Len()
			if n < len(flushed) || n > len(flushed)+len(pending) {
				res.Violate("len-wrong", "op %d: Len()=%d, flushed %d, pending %d", i, n, len(flushed), len(pending))
				return
			}
		case "reopen":
			disarm()
			// flush first (the statement speaks of the set "once flushed")
			if err := hs.Flush(); err != nil {
				res.Violate("hashset-error", "op %d Flush: %v", i, err)
				return
			}
			for k := range pending {
				flushed[k] = true
			}
			pending = map[string]bool{}
			flushes++
			var f index.ReadWriteSeekCloser
			var err error
			switch op.How {
			case 2:
				// the handle is used again as it is (wherever the last flush left its offset)
				if p.RealFile {
					f = rf
				} else {
					f = sf
				}
				res.probe("reopen_same_handle", 1)
			case 0, 1:
				if err := hs.Close(); err != nil {
					res.Violate("hashset-error", "op %d Close: %v", i, err)
					return
				}
				f, err = open()
				if err != nil {
					res.Invalid("reopen: %v", err)
					return
				}
				if op.How == 1 {
					if _, err := f.Seek(0, 2); err != nil {
						res.Invalid("seek: %v", err)
						return
					}
					res.probe("reopen_handle_at_end", 1)
				}
			default:
				res.Invalid("reopen how")
				return
			}
			hs, err = index.NewHashSet(f, p.Batch)
			if err != nil {
				res.Violate("hashset-error", "op %d reopen NewHashSet: %v", i, err)
				return
			}
			reopens++
			if !checkAll(fmt.Sprintf("after op %d (reopen)", i)) {
				return
			}
		default:
			res.Invalid("bad op %q", op.Op)
			return
		}
	}
	disarm()
	if err := hs.Flush(); err != nil {
		res.Violate("hashset-error", "final Flush: %v", err)
		return
	}
	if faulted() {
		res.fault("read_error", sf.ReadFaults)
	}
	for k := range pending {
		flushed[k] = true
	}
	pending = map[string]bool{}
	if !checkAll("at end") {
		return
	}
	hs.Close()
	res.stat("sim_steps", float64(len(p.Ops)))
	if repeats > 0 {
		res.probe("repeat_add", 1)
	}
	if reopens > 0 {
		res.probe("reopen", 1)
	}
	res.Nontrivial = flushes >= 2 && repeats >= 1 && (reopens >= 1 || len(flushed) >= 10)
}
