package sim

// C13: write-prefix (crash) enumeration and single-write-error enumeration over
// commit / merge / prune run through the in-process CLI.

import (
	"bytes"
	"encoding/json"
	"fmt"
	"net/http"
	"os"
	"path/filepath"
	"strings"
	"testing"
	"time"

	"github.com/wrgl/wrgl/pkg/ref"
)

type C13Plan struct {
	Base      SynthSpec `json:"base"`
	E1        []Edit    `json:"e1"`
	E2        []Edit    `json:"e2"`
	Op        string    `json:"op"`   // commit-existing | commit-new | merge-ff | merge-noff | merge-real | prune
	Mode      string    `json:"mode"` // crash | error | diskfull
	Workers   int       `json:"workers"`
	SchedSeed uint64    `json:"sched_seed"`
	// PruneBetween (crash mode): the pre-state holds an unreachable commit, and `wrgl prune` runs on
	// every crash state before the operation is repeated
	PruneBetween bool `json:"prune_between,omitempty"`
}

var c13Ops = []string{"commit-existing", "commit-new", "merge-ff", "merge-noff", "merge-real", "prune", "fetch", "pull", "fetch", "pull", "merge-shallow-ff", "merge-shallow-noff"}

func genDisjointEdits(r *Rand, cols, pk []string, nrows int) (e1, e2 []Edit) {
	pkIdx, _ := pkIndices(cols, pk)
	var nonKey []int
	for j := range cols {
		if !contains(pkIdx, j) {
			nonKey = append(nonKey, j)
		}
	}
	used := map[int]bool{}
	for b := 0; b < 2; b++ {
		var es []Edit
		for k := r.Range(1, 3); k > 0 && nrows > 0 && len(nonKey) > 0; k-- {
			row := r.Intn(nrows)
			if used[row] {
				continue
			}
			used[row] = true
			es = append(es, Edit{Op: "setcell", Row: row, Col: Pick(r, nonKey), Val: fmt.Sprintf("E%d_%d", b, row)})
		}
		cells := make([]string, len(cols))
		for j := range cells {
			cells[j] = fmt.Sprintf("n%d", b)
			if contains(pkIdx, j) {
				cells[j] = fmt.Sprintf("Z%d_%d", b, r.Intn(1000))
			}
		}
		es = append(es, Edit{Op: "addrow", Cells: cells})
		if b == 0 {
			e1 = es
		} else {
			e2 = es
		}
	}
	return
}

func init() {
	Register(&Profile{
		ID: "C13", Prop: "C13",
		Rule: "operation (commit to existing/new branch, merge fast-forward / --no-ff / real 3-way, prune) through the in-process CLI on a generated pre-state; the global write log W (object store + ref store) of one fault-free run is recorded, then EVERY prefix k of W is materialised as a crash state, reopened, checked for I1-I4 and the operation re-run and compared (tables + history shape) with the uninterrupted run; error/disk-full modes inject a failure at every write position; non-trivial = every case (each enumerates all its crash points); distinct by plan hash",
		Gen: func(seed uint64, tier string) any {
			r := NewRand(seed)
			p := C13Plan{Op: Pick(r, c13Ops), Mode: Pick(r, []string{"crash", "crash", "error", "diskfull", "sqlerror"}), Workers: Pick(r, []int{1, 1, 4, 6}), SchedSeed: r.Uint64() | 1}
			p.Base = SynthSpec{N: Pick(r, []int{1, 3, 8, 30, 255, 256, 300, 520}), NCols: r.Range(2, 4), Seed: r.Uint64()}
			cols, pk, _ := p.Base.Build()
			p.E1, p.E2 = genDisjointEdits(r.Sub("edits"), cols, pk, p.Base.N)
			p.PruneBetween = p.Mode == "crash" && p.Op != "prune" && !strings.HasPrefix(p.Op, "merge-shallow") && r.Chance(0.3)
			return p
		},
		Exec: execC13,
	})
}

func execC13(t *testing.T, raw json.RawMessage, res *Result) {
	var p C13Plan
	if err := json.Unmarshal(raw, &p); err != nil {
		res.Invalid("plan: %v", err)
		return
	}
	if p.Base.N < 1 || p.Base.N > 2000 || p.Base.NCols < 2 || p.Base.NCols > 8 || len(p.E1) > 50 || len(p.E2) > 50 || p.Workers < 0 || p.Workers > 32 {
		res.Invalid("plan out of range")
		return
	}
	okOp := false
	for _, o := range c13Ops {
		if o == p.Op {
			okOp = true
		}
	}
	if !okOp || (p.Mode != "crash" && p.Mode != "error" && p.Mode != "diskfull" && p.Mode != "sqlerror") {
		res.Invalid("op/mode")
		return
	}
	cols, pk, rows := p.Base.Build()
	_, _, rows1 := ApplyEdits(cols, pk, rows, p.E1)
	_, _, rows2 := ApplyEdits(cols, pk, rows, p.E2)
	rows1, rows2 = DedupeByKey(cols, pk, rows1), DedupeByKey(cols, pk, rows2)
	w := &World{}
	n, err := NewNode(t, "L", w)
	if err != nil {
		res.Invalid("node: %v", err)
		return
	}
	defer n.Close()
	n.Objs.Monitor = MonitorC06
	f0 := n.WriteFile("base.csv", CSVText(cols, rows, ','))
	f1 := n.WriteFile("v1.csv", CSVText(cols, rows1, ','))
	f2 := n.WriteFile("v2.csv", CSVText(cols, rows2, ','))
	must := func(args ...string) bool {
		n.Clock += time.Hour
		r := n.Run(t, args...)
		if r.Failed() {
			res.Invalid("pre-state `wrgl %s` failed: %v %v %s", strings.Join(args, " "), r.Err, r.Out.PanicVal, r.Stdout)
			return false
		}
		return true
	}
	pkArg := strings.Join(pk, ",")
	remoteOp := p.Op == "fetch" || p.Op == "pull" || strings.HasPrefix(p.Op, "merge-shallow")
	if !remoteOp {
		if !must("commit", "main", f0, "base", "-p", pkArg) {
			return
		}
	}
	var opArgs []string
	var beforeOp func()
	nw := fmt.Sprint(p.Workers)
	switch p.Op {
	case "commit-existing":
		opArgs = []string{"commit", "main", f1, "second", "-p", pkArg, "-n", nw}
	case "commit-new":
		opArgs = []string{"commit", "feature", f1, "first on feature", "-p", pkArg, "-n", nw}
	case "merge-ff", "merge-noff":
		if !must("branch", "create", "alt", "main") || !must("commit", "alt", f2, "on alt", "-p", pkArg) {
			return
		}
		opArgs = []string{"merge", "main", "alt", "-n", nw}
		if p.Op == "merge-noff" {
			opArgs = append(opArgs, "--no-ff")
		}
	case "merge-real":
		if !must("branch", "create", "alt", "main") || !must("commit", "alt", f2, "on alt", "-p", pkArg) || !must("commit", "main", f1, "on main", "-p", pkArg) {
			return
		}
		opArgs = []string{"merge", "main", "alt", "-n", nw}
	case "fetch", "pull", "merge-shallow-ff", "merge-shallow-noff":
		// a remote R served by the reference server over simnet; L has synced once, R moved on
		R, err := NewNode(t, "R", w)
		if err != nil {
			res.Invalid("node R: %v", err)
			return
		}
		defer R.Close()
		rmust := func(args ...string) bool {
			R.Clock += time.Hour
			r := R.Run(t, args...)
			if r.Failed() {
				res.Invalid("pre-state on R `wrgl %s` failed: %v %s", strings.Join(args, " "), r.Err, r.Stdout)
				return false
			}
			return true
		}
		rf0 := R.WriteFile("base.csv", CSVText(cols, rows, ','))
		rf1 := R.WriteFile("v1.csv", CSVText(cols, rows1, ','))
		rf2 := R.WriteFile("v2.csv", CSVText(cols, rows2, ','))
		net := NewSimNet()
		srv := NewRefServer(R.Objs, nil, ServerKnobs{TableBatch: int(p.SchedSeed % 3), MaxPackfileSize: []uint64{0, 1, 300}[p.SchedSeed%3]})
		srv.OpenRS = func() (ref.Store, func(), error) {
			db, err := OpenRefDB(filepath.Join(R.WrglDir, "sqlite.db"))
			if err != nil {
				return nil, nil, err
			}
			return db, func() { db.Close() }, nil
		}
		net.AddServer("r.example.com", srv)
		prevTransport := http.DefaultTransport
		http.DefaultTransport = net
		defer func() { http.DefaultTransport = prevTransport }()
		os.Setenv("XDG_CONFIG_HOME", filepath.Join(n.Root, "xdg"))
		if !rmust("commit", "main", rf0, "r base", "-p", pkArg) || !must("remote", "add", "origin", "http://r.example.com") ||
			!must("pull", "main", "origin", "refs/heads/main:refs/remotes/origin/main") {
			return
		}
		if !rmust("commit", "main", rf1, "r second", "-p", pkArg) || !rmust("commit", "dev", rf2, "r dev", "-p", pkArg) {
			return
		}
		// a tag on the remote that no refspec covers: fetch follows it once its commit is local
		if (p.SchedSeed>>1)%4 != 0 {
			if db, err := R.OpenRef(); err == nil {
				if h, err := ref.GetHead(db, []string{"main", "dev"}[(p.SchedSeed>>3)%2]); err == nil {
					ref.SaveTag(db, "v1", h)
					res.probe("remote_tag_to_follow", 1)
				}
				db.Close()
			}
		}
		if strings.HasPrefix(p.Op, "merge-shallow") {
			// origin/main^ is fetched without its table (--depth 1): merging it into main must be
			// refused, whatever the fast-forward mode, and main must stay on a commit with a table
			if !rmust("commit", "main", rf2, "r third", "-p", pkArg) ||
				!must("fetch", "origin", "refs/heads/main:refs/remotes/origin/main", "--depth", "1") {
				return
			}
			opArgs = []string{"merge", "main", "origin/main^", "-n", nw}
			if p.Op == "merge-shallow-noff" {
				opArgs = append(opArgs, "--no-ff")
			}
		} else if p.Op == "fetch" {
			opArgs = []string{"fetch", "origin"}
		} else {
			opArgs = []string{"pull", "main", "origin", "refs/heads/main:refs/remotes/origin/main", "-n", "1"}
		}
		beforeOp = func() { srv.Restart() }
	case "prune":
		// a chain (and a fork) of doomed commits: prune must delete children before parents
		chain := 2 + int(p.SchedSeed%5)
		for i := 0; i < chain; i++ {
			f := f1
			if i%2 == 1 {
				f = f2
			}
			if !must("commit", "tmp", f, fmt.Sprintf("doomed %d", i), "-p", pkArg) {
				return
			}
			if i == 1 && p.SchedSeed%3 == 0 {
				if !must("branch", "create", "tmp2", "tmp") || !must("commit", "tmp2", f0, "doomed fork", "-p", pkArg) {
					return
				}
			}
		}
		if !must("branch", "delete", "tmp") {
			return
		}
		if p.SchedSeed%3 == 0 && !must("branch", "delete", "tmp2") {
			return
		}
		opArgs = []string{"prune"}
	}
	if p.PruneBetween {
		// something for prune to do: a commit no ref reaches
		fd := n.WriteFile("doomed.csv", CSVText(cols, rows2, ','))
		if !must("commit", "doomed", fd, "doomed", "-p", pkArg) || !must("branch", "delete", "doomed") {
			return
		}
	}
	pre := n.Capture()
	runOp := func() CLIResult {
		n.Clock += time.Hour
		if beforeOp != nil {
			beforeOp()
		}
		// merges are not run under the parking scheduler: merge.Merger busy-polls
		// (DESIGN 2.3), parked differs would livelock the bubble
		if p.Workers >= 4 && strings.HasPrefix(p.Op, "commit") {
			n.SchedSeed = p.SchedSeed
			defer func() { n.SchedSeed = 0 }()
		}
		return n.Run(t, opArgs...)
	}
	logStart := w.LogLen()
	r0 := runOp()
	if bubbleProblems(res, r0.Out, "wrgl "+p.Op) {
		return
	}
	if strings.HasPrefix(p.Op, "merge-shallow") {
		now := n.Capture()
		refs, err := RefsOf(now.RefDB)
		if err != nil {
			res.Invalid("refs: %v", err)
			return
		}
		preRefs, _ := RefsOf(pre.RefDB)
		if c, d := CheckRepoInvariants(now.Objs, refs); c != "" {
			res.Violate("shallow-merge:"+c, "`wrgl %s` (other commit present without its table; err=%v): %s", strings.Join(opArgs, " "), r0.Err, d)
			return
		}
		if r0.Err == nil {
			res.Violate("shallow-merge-accepted", "`wrgl %s` succeeded although the other commit's table is not in the repository: %s", strings.Join(opArgs, " "), r0.Stdout)
			return
		}
		if !bytes.Equal(refs["heads/main"], preRefs["heads/main"]) {
			res.Violate("shallow-merge-moved-branch", "`wrgl %s` was refused (%v) but heads/main moved", strings.Join(opArgs, " "), r0.Err)
			return
		}
		res.probe("op_"+p.Op, 1)
		res.Nontrivial = true
		return
	}
	if r0.Err != nil {
		res.Violate("op-failed", "fault-free `wrgl %s` failed: %v\n%s", strings.Join(opArgs, " "), r0.Err, r0.Stdout)
		return
	}
	if me := n.Objs.TakeMonErrs(); len(me) > 0 {
		res.Violate("c06-monitor", "%s", me[0])
		return
	}
	W := append([]WriteRec(nil), w.Log[logStart:]...)
	m := len(W)
	final := n.Capture()
	finalRefs, err := RefsOf(final.RefDB)
	if err != nil {
		res.Invalid("refs: %v", err)
		return
	}
	if c, d := CheckRepoInvariants(final.Objs, finalRefs); c != "" {
		res.Violate("final:"+c, "after the uninterrupted run: %s", d)
		return
	}
	finalShapes := RefShapes(final.Objs, finalRefs)
	res.stat("writes_per_op", float64(m))
	describe := func(k int) string {
		prev, next := "start", "end"
		if k > 0 {
			prev = W[k-1].Op + " " + FmtKey(W[k-1].Key)
		}
		if k < m {
			next = W[k].Op + " " + FmtKey(W[k].Key)
		}
		return fmt.Sprintf("crash after write %d/%d (between [%s] and [%s])", k, m, prev, next)
	}
	checkRerun := func(when string) bool {
		rr := runOp()
		if rr.Out.PanicVal != nil || rr.Out.Deadlock {
			res.Violate("rerun-panic", "%s: re-running the operation panicked/deadlocked: %v\n%s", when, rr.Out.PanicVal, trimStack(rr.Out.PanicStack))
			return false
		}
		if rr.Err != nil {
			res.Violate("rerun-failed", "%s: re-running `wrgl %s` failed: %v", when, strings.Join(opArgs, " "), rr.Err)
			return false
		}
		now := n.Capture()
		refs, err := RefsOf(now.RefDB)
		if err != nil {
			res.Invalid("refs: %v", err)
			return false
		}
		if c, d := CheckRepoInvariants(now.Objs, refs); c != "" {
			res.Violate("rerun:"+c, "%s, after re-running: %s", when, d)
			return false
		}
		if d := shapesEqual(RefShapes(now.Objs, refs), finalShapes); d != "" {
			res.Violate("rerun-differs", "%s: after re-running, %s (compared with the uninterrupted run)", when, d)
			return false
		}
		if p.Op == "prune" {
			for k := range now.Objs {
				// the statements (C12/C13) speak of commits, tables and blocks; a
				// leftover derived object (tblidx/tblsum/blkidx) is tolerated
				if !(strings.HasPrefix(k, "com/") || strings.HasPrefix(k, "tbl/") || strings.HasPrefix(k, "blk/")) {
					continue
				}
				if _, ok := final.Objs[k]; !ok {
					res.Violate("rerun-differs", "%s: after re-running prune, object %s remains although the uninterrupted prune removed it", when, FmtKey(k))
					return false
				}
			}
		}
		return true
	}

	switch p.Mode {
	case "crash":
		for k := 0; k <= m; k++ {
			st := n.StateAt(pre, W, k)
			refs, err := RefsOf(st.RefDB)
			if err != nil {
				res.Violate("crash:refdb-unreadable", "%s: %v", describe(k), err)
				return
			}
			res.hashOf(fmt.Sprintf("state:%x", stateHash(st)))
			if c, d := CheckRepoInvariants(st.Objs, refs); c != "" {
				res.Violate("crash:"+c, "%s: %s", describe(k), d)
				return
			}
			if k < m {
				n.Restore(st)
				when := describe(k)
				if p.PruneBetween {
					n.Clock += time.Hour
					pr := n.Run(t, "prune")
					if pr.Out.PanicVal != nil || pr.Out.Deadlock {
						res.Violate("prune-panic", "%s: `wrgl prune` on the crash state panicked/deadlocked: %v\n%s", when, pr.Out.PanicVal, trimStack(pr.Out.PanicStack))
						return
					}
					if pr.Err != nil {
						res.Violate("prune-failed", "%s: `wrgl prune` on the crash state failed: %v", when, pr.Err)
						return
					}
					now := n.Capture()
					prefs, err := RefsOf(now.RefDB)
					if err != nil {
						res.Violate("crash:refdb-unreadable", "%s, then prune: %v", when, err)
						return
					}
					if c, d := CheckRepoInvariants(now.Objs, prefs); c != "" {
						res.Violate("pruned-crash-state:"+c, "%s, then `wrgl prune`: %s", when, d)
						return
					}
					when += ", then `wrgl prune`"
					res.probe("prune_between_crash_and_rerun", 1)
				}
				if !checkRerun(when) {
					return
				}
			}
		}
		res.stat("crash_states", float64(m+1))
		res.fault("crash", m+1)
	case "sqlerror":
		// every SQL statement the operation issues against its ref store fails once
		n.Restore(pre)
		SQLFault.Arm(0)
		r1 := runOp()
		nStmt := SQLFault.Count()
		if r1.Err != nil || nStmt > 5000 {
			res.Invalid("statement count run: err=%v statements=%d", r1.Err, nStmt)
			return
		}
		defer SQLFault.Arm(0)
		for j := 1; j <= nStmt; j++ {
			n.Restore(pre)
			firedBefore := SQLFault.Fired
			SQLFault.Arm(j)
			rr := runOp()
			SQLFault.Arm(0)
			when := fmt.Sprintf("error at SQL statement %d/%d of the ref store", j, nStmt)
			if rr.Out.PanicVal != nil || rr.Out.Deadlock {
				res.Violate("error-panic", "%s: panicked/deadlocked: %v\n%s", when, rr.Out.PanicVal, trimStack(rr.Out.PanicStack))
				return
			}
			if SQLFault.Fired == firedBefore {
				continue
			}
			res.fault("sql_statement_error", 1)
			now := n.Capture()
			refs, err := RefsOf(now.RefDB)
			if err != nil {
				res.Violate("error:refdb-unreadable", "%s: %v", when, err)
				return
			}
			if c, d := CheckRepoInvariants(now.Objs, refs); c != "" {
				res.Violate("error:"+c, "%s (operation returned err=%v): %s", when, rr.Err, d)
				return
			}
			if rr.Err == nil {
				if d := shapesEqual(RefShapes(now.Objs, refs), finalShapes); d == "" {
					continue
				}
				// a failed read may be taken for "nothing to do" (pull: "Already up to date"); the
				// statement asks for consistency and repeatability, so the re-run decides
				when += " (the command reported success short of the uninterrupted result)"
				res.probe("sql_error_tolerated_short_of_result", 1)
			}
			if !checkRerun(when) {
				return
			}
		}
	case "error", "diskfull":
		nObj, nRef := 0, 0
		for _, r := range W {
			if r.Store == n.Objs.Name {
				nObj++
			} else {
				nRef++
			}
		}
		try := func(isRef bool, j int) bool {
			n.Restore(pre)
			f := &Fault{Op: "write", Nth: j, Sticky: p.Mode == "diskfull"}
			if isRef {
				n.Ref.Faults = []*Fault{f}
			} else {
				n.Objs.Faults = []*Fault{f}
			}
			rr := runOp()
			n.Ref.Faults, n.Objs.Faults = nil, nil
			when := fmt.Sprintf("%s at object-store write %d/%d", p.Mode, j, nObj)
			if isRef {
				when = fmt.Sprintf("%s at ref-store write %d/%d", p.Mode, j, nRef)
			}
			if rr.Out.PanicVal != nil || rr.Out.Deadlock {
				res.Violate("error-panic", "%s: panicked/deadlocked: %v\n%s", when, rr.Out.PanicVal, trimStack(rr.Out.PanicStack))
				return false
			}
			if f.Fired == 0 {
				return true
			}
			res.fault("write_"+p.Mode, 1)
			now := n.Capture()
			refs, err := RefsOf(now.RefDB)
			if err != nil {
				res.Violate("error:refdb-unreadable", "%s: %v", when, err)
				return false
			}
			if c, d := CheckRepoInvariants(now.Objs, refs); c != "" {
				res.Violate("error:"+c, "%s (operation returned err=%v): %s", when, rr.Err, d)
				return false
			}
			if rr.Err == nil {
				// the op claims success despite the failed write: its postcondition must hold
				if d := shapesEqual(RefShapes(now.Objs, refs), finalShapes); d != "" {
					res.Violate("error-swallowed", "%s: operation reported success but %s", when, d)
					return false
				}
				return true
			}
			return checkRerun(when)
		}
		for j := 1; j <= nObj; j++ {
			if !try(false, j) {
				return
			}
		}
		for j := 1; j <= nRef; j++ {
			if !try(true, j) {
				return
			}
		}
	}
	res.stat("sim_steps", float64(w.Steps))
	res.probe("op_"+p.Op, 1)
	for k := 1; k < m; k++ {
		a, b := W[k-1], W[k]
		if strings.HasPrefix(a.Key, "com/") && b.Op == "refsnap" {
			res.probe("crash_between_commit_and_ref", 1)
		}
		if strings.HasPrefix(b.Key, "tbl/") && strings.HasPrefix(a.Key, "tbl") {
			res.probe("crash_between_table_index_and_table", 1)
		}
		if a.Op == "del" && b.Op == "del" {
			res.probe("crash_between_two_prune_deletes", 1)
		}
	}
	res.Nontrivial = m >= 2
}

func stateHash(st NodeState) []byte {
	keys := make([]string, 0, len(st.Objs))
	for k := range st.Objs {
		keys = append(keys, k)
	}
	return meowSum([]byte(strings.Join(sortStrings(keys), "|") + string(meowSum(st.RefDB))))
}

func sortStrings(s []string) []string {
	for i := 1; i < len(s); i++ {
		for j := i; j > 0 && s[j-1] > s[j]; j-- {
			s[j-1], s[j] = s[j], s[j-1]
		}
	}
	return s
}
