package sim

// simstore: in-memory objects.Store with a global write log, fault injection,
// write monitors and an optional parking scheduler (bubble mode).
//
// All harness-side synchronisation is wrapped in runtime.RaceDisable/RaceEnable
// and all harness-side shared data is touched in //go:norace functions, so the
// race detector computes happens-before from wrgl's own synchronisation only
// (DESIGN 2.3).

import (
	"errors"
	"fmt"
	"strings"
	"sync"
	"sync/atomic"

	"github.com/wrgl/wrgl/pkg/objects"
)

// WriteRec is one durable mutation, in global order.
type WriteRec struct {
	Seq   int
	Store string // store name; "ref:<node>" for ref-store snapshots
	Op    string // set | del | clear | refsnap
	Key   string
	Val   []byte
}

// World is shared by all stores of one simulated run.
type World struct {
	mu    sync.Mutex
	Log   []WriteRec
	Steps int64 // store operations (reads + writes) served
	Reads int64
}

//go:norace
func (w *World) appendLog(r WriteRec) {
	w.mu.Lock()
	r.Seq = len(w.Log)
	w.Log = append(w.Log, r)
	w.mu.Unlock()
}

//go:norace
func (w *World) LogLen() int {
	raceDisable()
	defer raceEnable()
	w.mu.Lock()
	defer w.mu.Unlock()
	return len(w.Log)
}

// Fault describes one injected store fault.
type Fault struct {
	Op     string `json:"op"`     // get|set|del|exist|filter|filterkey|clear|read|write|any
	Prefix string `json:"prefix"` // key prefix ("" = any)
	Nth    int    `json:"nth"`    // 1-based among matching ops
	Sticky bool   `json:"sticky"` // keep failing from Nth on (disk full)
	seen   int
	Fired  int `json:"-"`
}

var ErrInjected = errors.New("simstore: injected I/O error")

type Store struct {
	Name     string
	W        *World
	mu       sync.Mutex
	m        *kvmap
	Faults   []*Fault
	Sched    *Sched
	Monitor  func(key string, old []byte, had bool, val []byte) string // returns "" or a violation text
	MonErrs  []string
	NoPark   bool // serve without parking even when Sched is set
	// Retain: Set keeps the caller's slice instead of a copy until the end of the run, as a transactional store
	// does with its pending writes (objbadger.Txn hands the slice to badger's transaction, which holds it until
	// commit): a caller that reuses its buffer after Set changes what was "stored"
	Retain bool
	opCounts [8]int
	Closed   int
}

func NewStore(name string, w *World) *Store {
	return &Store{Name: name, W: w, m: newKVMap()}
}

func isWrite(op string) bool { return op == "set" || op == "del" || op == "clear" }

//go:norace
func (s *Store) matchFault(op, key string) bool {
	hit := false
	for _, f := range s.Faults {
		ok := f.Op == op || f.Op == "any" || (f.Op == "write" && isWrite(op)) || (f.Op == "read" && !isWrite(op))
		if !ok || !hasPrefix(key, f.Prefix) {
			continue
		}
		f.seen++
		if f.seen == f.Nth || (f.Sticky && f.seen > f.Nth) {
			f.Fired++
			hit = true
		}
	}
	return hit
}

// enter parks the caller (bubble mode), then decides whether this op fails.
//
// Progress counts store operations of all stores (hang watchdog).
var Progress atomic.Int64

//go:norace
func (s *Store) enter(op string, key []byte) (fail bool) {
	raceDisable()
	Progress.Add(1)
	k := string(key)
	if s.Sched != nil && !s.NoPark && s.Sched.Active() {
		s.Sched.park(op, k)
	}
	s.mu.Lock()
	s.opCounts[opCode(op)]++
	fail = s.matchFault(op, k)
	s.mu.Unlock()
	s.W.mu.Lock()
	s.W.Steps++
	if !isWrite(op) {
		s.W.Reads++
	}
	s.W.mu.Unlock()
	raceEnable()
	return
}

//go:norace
func cp(b []byte) []byte {
	c := make([]byte, len(b))
	copy(c, b)
	return c
}

//go:norace
func (s *Store) Get(key []byte) ([]byte, error) {
	if s.enter("get", key) {
		return nil, ErrInjected
	}
	raceDisable()
	s.mu.Lock()
	v, ok := s.m.get(string(key))
	var c []byte
	if ok {
		c = cp(v)
	}
	s.mu.Unlock()
	raceEnable()
	if !ok {
		return nil, objects.ErrKeyNotFound
	}
	return c, nil
}

//go:norace
func (s *Store) Set(key, val []byte) error {
	if s.enter("set", key) {
		return ErrInjected
	}
	raceDisable()
	k := string(key)
	v := cp(val)
	if s.Retain {
		v = val
	}
	s.mu.Lock()
	old, had := s.m.get(k)
	s.m.set(k, v)
	s.mu.Unlock()
	if s.Monitor != nil {
		// The monitor runs instrumented code (wrgl decoders, fmt); it is only
		// installed in non-race profiles.
		if e := s.Monitor(k, old, had, v); e != "" {
			s.mu.Lock()
			s.MonErrs = append(s.MonErrs, e)
			s.mu.Unlock()
		}
	}
	s.W.appendLog(WriteRec{Store: s.Name, Op: "set", Key: k, Val: v})
	raceEnable()
	return nil
}

//go:norace
func (s *Store) Delete(key []byte) error {
	if s.enter("del", key) {
		return ErrInjected
	}
	raceDisable()
	k := string(key)
	s.mu.Lock()
	s.m.del(k)
	s.mu.Unlock()
	s.W.appendLog(WriteRec{Store: s.Name, Op: "del", Key: k})
	raceEnable()
	return nil
}

//go:norace
func (s *Store) Exist(key []byte) bool {
	if s.enter("exist", key) {
		return false
	}
	raceDisable()
	s.mu.Lock()
	_, ok := s.m.get(string(key))
	s.mu.Unlock()
	raceEnable()
	return ok
}

//go:norace
func (s *Store) Filter(prefix []byte) (map[string][]byte, error) {
	if s.enter("filter", prefix) {
		return nil, ErrInjected
	}
	raceDisable()
	s.mu.Lock()
	ks, vs := s.m.scan(string(prefix))
	s.mu.Unlock()
	raceEnable()
	res := make(map[string][]byte, len(ks)) // caller-local map
	for i, k := range ks {
		res[k] = cp(vs[i])
	}
	return res, nil
}

//go:norace
func (s *Store) FilterKey(prefix []byte) ([][]byte, error) {
	if s.enter("filterkey", prefix) {
		return nil, ErrInjected
	}
	raceDisable()
	s.mu.Lock()
	ks, _ := s.m.scan(string(prefix)) // sorted: Badger iterates in key order
	s.mu.Unlock()
	raceEnable()
	res := make([][]byte, len(ks))
	for i, k := range ks {
		res[i] = []byte(k)
	}
	return res, nil
}

//go:norace
func (s *Store) Clear(prefix []byte) error {
	if s.enter("clear", prefix) {
		return ErrInjected
	}
	raceDisable()
	s.mu.Lock()
	ks, _ := s.m.scan(string(prefix))
	for _, k := range ks {
		s.m.del(k)
	}
	s.mu.Unlock()
	s.W.appendLog(WriteRec{Store: s.Name, Op: "clear", Key: string(prefix)})
	raceEnable()
	return nil
}

//go:norace
func (s *Store) Close() error {
	raceDisable()
	s.mu.Lock()
	s.Closed++
	s.mu.Unlock()
	raceEnable()
	return nil
}

// ---- harness-side (not parked, not counted) access ----

//go:norace
func (s *Store) Snapshot() map[string][]byte {
	raceDisable()
	defer raceEnable()
	s.mu.Lock()
	defer s.mu.Unlock()
	ks, vs := s.m.scan("")
	m := make(map[string][]byte, len(ks))
	for i, k := range ks {
		m[k] = vs[i] // values are never mutated in place
	}
	return m
}

//go:norace
func (s *Store) Restore(m map[string][]byte) {
	raceDisable()
	defer raceEnable()
	s.mu.Lock()
	defer s.mu.Unlock()
	s.m = newKVMap()
	for k, v := range m {
		s.m.set(k, v)
	}
}

//go:norace
func (s *Store) Raw(key string) ([]byte, bool) {
	raceDisable()
	defer raceEnable()
	s.mu.Lock()
	defer s.mu.Unlock()
	return s.m.get(key)
}

//go:norace
func (s *Store) RawSet(key string, v []byte) {
	raceDisable()
	defer raceEnable()
	s.mu.Lock()
	defer s.mu.Unlock()
	s.m.set(key, cp(v))
}

//go:norace
func (s *Store) RawDelete(key string) {
	raceDisable()
	defer raceEnable()
	s.mu.Lock()
	defer s.mu.Unlock()
	s.m.del(key)
}

//go:norace
func (s *Store) Keys(prefix string) []string {
	raceDisable()
	defer raceEnable()
	s.mu.Lock()
	defer s.mu.Unlock()
	ks, _ := s.m.scan(prefix)
	return ks
}

//go:norace
func (s *Store) FaultsFired() int {
	raceDisable()
	defer raceEnable()
	s.mu.Lock()
	defer s.mu.Unlock()
	n := 0
	for _, f := range s.Faults {
		n += f.Fired
	}
	return n
}

//go:norace
func (s *Store) TakeMonErrs() []string {
	raceDisable()
	defer raceEnable()
	s.mu.Lock()
	defer s.mu.Unlock()
	e := s.MonErrs
	s.MonErrs = nil
	return e
}

// ApplyLog applies log records of this store to a state map.
func ApplyLog(state map[string][]byte, store string, recs []WriteRec) {
	for _, r := range recs {
		if r.Store != store {
			continue
		}
		switch r.Op {
		case "set":
			state[r.Key] = r.Val
		case "del":
			delete(state, r.Key)
		case "clear":
			for k := range state {
				if strings.HasPrefix(k, r.Key) {
					delete(state, k)
				}
			}
		}
	}
}

func (s *Store) String() string { return fmt.Sprintf("simstore(%s)", s.Name) }

var _ objects.Store = (*Store)(nil)
