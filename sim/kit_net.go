package sim

// simnet: an http.RoundTripper that routes by host name to in-process handlers
// and injects network faults from the plan. refserver: the reference remote
// (harness stub of wrgld's glue around wrgl's own finder/sender/receiver).

import (
	"bytes"
	"compress/gzip"
	"encoding/json"
	"errors"
	"fmt"
	"io"
	"net/http"
	"net/http/httptest"
	"sort"
	"strings"
	"sync"
	"time"

	"github.com/go-logr/logr"
	"github.com/wrgl/wrgl/pkg/api/payload"
	apiutils "github.com/wrgl/wrgl/pkg/api/utils"
	"github.com/wrgl/wrgl/pkg/encoding/packfile"
	"github.com/wrgl/wrgl/pkg/objects"
	"github.com/wrgl/wrgl/pkg/ref"
)

// ---------------------------------------------------------------- simnet

type NetFault struct {
	At   int    `json:"at"`   // 1-based request number (all hosts)
	Kind string `json:"kind"` // lose-request | lose-response | 500 | 503 | 404 | stream-error | truncate | flip | restart | delay | empty-packs (from this request on every packfile reply is a valid, empty packfile)
	Arg  int    `json:"arg,omitempty"`
}

type NetStats struct {
	Requests   int
	BytesUp    int
	BytesDown  int
	Packfiles  int
	PackBytes  int
	Fired      map[string]int
	PathCounts map[string]int
}

type SimNet struct {
	mu      sync.Mutex
	hosts   map[string]http.Handler
	servers map[string]*RefServer
	Faults  []NetFault
	Cuts    []int // chunking of response bodies
	EOFLast bool
	Stats   NetStats
	Log     []string
	// OpBudget > 0: at most that many requests may follow OpStart (set by the executor before each
	// operation); beyond it requests fail and Storm is set (a client that polls without end)
	OpBudget   int
	OpStart    int
	Storm      bool
	emptyPacks bool
}

func NewSimNet() *SimNet {
	return &SimNet{hosts: map[string]http.Handler{}, servers: map[string]*RefServer{}, Stats: NetStats{Fired: map[string]int{}, PathCounts: map[string]int{}}}
}

func (n *SimNet) AddServer(host string, s *RefServer) {
	n.hosts[host] = s
	n.servers[host] = s
}

var errStream = errors.New("stream error: stream ID 1; INTERNAL_ERROR; received from peer")

type faultBody struct {
	r        io.Reader
	failAt   int // bytes after which err is returned (-1 = never)
	err      error
	consumed int
}

func (b *faultBody) Read(p []byte) (int, error) {
	if b.failAt >= 0 && b.consumed >= b.failAt {
		return 0, b.err
	}
	if b.failAt >= 0 && len(p) > b.failAt-b.consumed {
		p = p[:b.failAt-b.consumed]
	}
	n, err := b.r.Read(p)
	b.consumed += n
	return n, err
}
func (b *faultBody) Close() error { return nil }

var DebugNet bool

func (n *SimNet) RoundTrip(req *http.Request) (resp *http.Response, err error) {
	if DebugNet {
		defer func() {
			code, ct, cl := 0, "", int64(0)
			if resp != nil {
				code, ct, cl = resp.StatusCode, resp.Header.Get("Content-Type"), resp.ContentLength
			}
			fmt.Printf("NET %d %s %s -> %d %s len=%d err=%v\n", n.Stats.Requests, req.Method, req.URL.Path, code, ct, cl, err)
		}()
	}
	return n.roundTrip(req)
}

func (n *SimNet) roundTrip(req *http.Request) (*http.Response, error) {
	n.mu.Lock()
	n.Stats.Requests++
	num := n.Stats.Requests
	var fault *NetFault
	for i := range n.Faults {
		if n.Faults[i].At == num {
			fault = &n.Faults[i]
		}
	}
	if n.OpBudget > 0 && num-n.OpStart > n.OpBudget {
		n.Storm = true
		n.mu.Unlock()
		return nil, fmt.Errorf("simnet: more than %d requests in one operation", n.OpBudget)
	}
	if fault != nil && fault.Kind == "empty-packs" {
		n.emptyPacks = true
		n.Stats.Fired["empty-packs"]++
	}
	h := n.hosts[req.URL.Host]
	srv := n.servers[req.URL.Host]
	n.Stats.PathCounts[req.Method+" "+req.URL.Path]++
	n.mu.Unlock()
	if h == nil {
		return nil, fmt.Errorf("simnet: no such host %q", req.URL.Host)
	}
	var body []byte
	if req.Body != nil {
		body, _ = io.ReadAll(req.Body)
		req.Body.Close()
	}
	n.Stats.BytesUp += len(body)
	fire := func(k string) {
		n.mu.Lock()
		n.Stats.Fired[k]++
		n.Log = append(n.Log, fmt.Sprintf("req %d %s %s: fault %s", num, req.Method, req.URL.Path, k))
		n.mu.Unlock()
	}
	if fault != nil {
		switch fault.Kind {
		case "lose-request":
			fire(fault.Kind)
			return nil, errors.New("simnet: connection reset before the request was delivered")
		case "500", "503", "404":
			// answered by something in front of the server (proxy, wrong path): plain text, not the API's JSON error
			fire(fault.Kind)
			code := 500
			if fault.Kind == "503" {
				code = 503
			} else if fault.Kind == "404" {
				code = 404
			}
			return &http.Response{StatusCode: code, Status: fmt.Sprintf("%d injected", code), Header: http.Header{"Content-Type": {"text/plain"}},
				Body: io.NopCloser(strings.NewReader("injected server error")), Request: req, ProtoMajor: 1, ProtoMinor: 1}, nil
		case "restart":
			fire(fault.Kind)
			if srv != nil {
				srv.Restart()
			}
		case "delay":
			fire(fault.Kind)
			time.Sleep(time.Duration(fault.Arg) * time.Second)
		}
	}
	r2 := req.Clone(req.Context())
	r2.Body = io.NopCloser(bytes.NewReader(body))
	r2.RequestURI = req.URL.RequestURI()
	rec := httptest.NewRecorder()
	h.ServeHTTP(rec, r2)
	resp := rec.Result()
	resp.Request = req
	data, _ := io.ReadAll(resp.Body)
	n.Stats.BytesDown += len(data)
	if n.emptyPacks && strings.Contains(req.URL.Path, "upload-pack") && resp.Header.Get("Content-Type") != "application/x-wrgl-packfile" {
		// the hostile remote answers every upload-pack request with a packfile
		resp.StatusCode, resp.Status = 200, "200 OK"
		resp.Header.Set("Content-Type", "application/x-wrgl-packfile")
	}
	if resp.Header.Get("Content-Type") == "application/x-wrgl-packfile" {
		n.Stats.Packfiles++
		n.Stats.PackBytes += len(data)
		if n.emptyPacks {
			// a remote that keeps answering with well-formed packfiles that hold nothing
			var eb bytes.Buffer
			packfile.NewPackfileWriter(&eb)
			data = eb.Bytes()
		}
	}
	if fault != nil {
		switch fault.Kind {
		case "lose-response":
			fire(fault.Kind)
			return nil, errors.New("simnet: connection reset before the response arrived")
		case "stream-error":
			fire(fault.Kind)
			resp.Body = &faultBody{r: NewPartReader(data, n.Cuts, false), failAt: len(data) / 2, err: errStream}
			return resp, nil
		case "truncate":
			fire(fault.Kind)
			cut := len(data) / 2
			if fault.Arg > 0 && fault.Arg < len(data) {
				cut = fault.Arg
			}
			data = data[:cut]
		case "hostile-json":
			// a well-formed JSON reply whose fields are not what the API promises
			fire(fault.Kind)
			variants := []string{`{"acks":[5]}`, `{"acks":["zz"]}`, `{"acks":["00112233445566778899aabbccddeeff0011223344"]}`, `{"acks":[""]}`, `{"acks":["0"]}`,
				`{"tableHaves":[null]}`, `{"tableHaves":[null,"00112233445566778899aabbccddeeff"]}`, `{"tableHaves":["00"]}`, `{"acks":[null]}`, `[]`, `null`, `{"acks":{"a":1}}`, `{"acks":[[]]}`, `"x"`, `{"refs":{"heads/main":5}}`, `{"refs":{"heads/main":"00"}}`, `{"refs":{"":null}}`, `{"tableACKs":[null]}`, `{"tableACKs":[7]}`, `{"updates":{"heads/main":null}}`, `{"updates":{"heads/main":{"sum":5}}}`, `{"updates":{"heads/main":{"errMsg":7}}}`}
			data = []byte(variants[fault.Arg%len(variants)])
			resp.StatusCode, resp.Status = 200, "200 OK"
			resp.Header.Set("Content-Type", "application/json")
		case "flip":
			if len(data) > 0 {
				fire(fault.Kind)
				i := fault.Arg % len(data)
				data = append([]byte(nil), data...)
				data[i] ^= 1 << uint(fault.Arg%8)
			}
		}
	}
	resp.ContentLength = int64(len(data))
	resp.Body = NewPartReader(data, n.Cuts, n.EOFLast)
	return resp, nil
}

// ---------------------------------------------------------------- refserver

type ServerKnobs struct {
	TableBatch      int    `json:"table_batch"` // 0 = skip table negotiation
	MaxPackfileSize uint64 `json:"max_pack"`
	DenyNonFF       bool   `json:"deny_non_ff"`
	DenyDeletes     bool   `json:"deny_deletes"`
}

type upSession struct {
	finder     *apiutils.ClosedSetsFinder
	sender     *apiutils.ObjectSender
	commits    []*objects.Commit
	tables     map[string]struct{}
	candidates [][]byte
	state      string // negotiate | tables | send
}

type rpSession struct {
	updates  map[string]*payload.Update
	receiver *apiutils.ObjectReceiver
	finished bool // every awaited commit has arrived and the refs were updated
}

// rsProxy forwards to the ref store handle of the request being served.
type rsProxy struct{ ref.Store }

type RefServer struct {
	rsProxy *rsProxy
	DB      objects.Store
	RS      ref.Store
	// OpenRS, when set, opens the ref store for the duration of one request
	// (a database handle must not outlive the bubble it was opened in)
	OpenRS func() (ref.Store, func(), error)
	Knobs  ServerKnobs
	mu     sync.Mutex
	up     map[string]*upSession
	rp     map[string]*rpSession
	seq    int
	// observations for the oracles
	Restarts    int
	RefUpdates  []RefTransition
	Received    []map[string]*payload.Update // every first receive-pack request
	UploadReqs  int
	ProtocolErr []string
}

func NewRefServer(db objects.Store, rs ref.Store, k ServerKnobs) *RefServer {
	return &RefServer{DB: db, RS: rs, Knobs: k, up: map[string]*upSession{}, rp: map[string]*rpSession{}}
}

func (s *RefServer) Restart() {
	s.mu.Lock()
	defer s.mu.Unlock()
	s.up = map[string]*upSession{}
	s.rp = map[string]*rpSession{}
	s.Restarts++
}

func writeJSON(w http.ResponseWriter, code int, v any) {
	b, _ := json.Marshal(v)
	w.Header().Set("Content-Type", "application/json")
	w.WriteHeader(code)
	w.Write(b)
}

func httpErr(w http.ResponseWriter, code int, msg string) {
	writeJSON(w, code, map[string]string{"message": msg})
}

func (s *RefServer) ServeHTTP(w http.ResponseWriter, r *http.Request) {
	s.mu.Lock()
	defer s.mu.Unlock()
	if s.OpenRS != nil {
		rs, closeRS, err := s.OpenRS()
		if err != nil {
			httpErr(w, 500, err.Error())
			return
		}
		s.RS = rs
		// sessions that live across requests (the upload-pack finder) reach the ref store through
		// this proxy, which always points at the handle of the request being served
		if s.rsProxy == nil {
			s.rsProxy = &rsProxy{}
		}
		s.rsProxy.Store = rs
		defer func() { closeRS(); s.RS = nil; s.rsProxy.Store = nil }()
	}
	switch {
	case r.Method == http.MethodGet && r.URL.Path == "/refs/":
		s.getRefs(w, r)
	case r.Method == http.MethodPost && r.URL.Path == "/upload-pack/":
		s.uploadPack(w, r)
	case r.Method == http.MethodPost && r.URL.Path == "/receive-pack/":
		s.receivePack(w, r)
	case r.Method == http.MethodGet && r.URL.Path == "/objects/":
		s.getObjects(w, r)
	default:
		httpErr(w, 404, "Not Found")
	}
}

func (s *RefServer) getRefs(w http.ResponseWriter, r *http.Request) {
	all, err := ref.ListAllRefs(s.RS)
	if err != nil {
		httpErr(w, 500, err.Error())
		return
	}
	q := r.URL.Query()
	res := map[string]*payload.Hex{}
	for name, sum := range all {
		ok := len(q["prefix"]) == 0
		for _, p := range q["prefix"] {
			if strings.HasPrefix(name, p) {
				ok = true
			}
		}
		for _, p := range q["notprefix"] {
			if strings.HasPrefix(name, p) {
				ok = false
			}
		}
		if ok {
			res[name] = payload.BytesToHex(sum)
		}
	}
	writeJSON(w, 200, &payload.GetRefsResponse{Refs: res})
}

func (s *RefServer) cookie(r *http.Request, name string) string {
	if c, err := r.Cookie(name); err == nil {
		return c.Value
	}
	return ""
}

func (s *RefServer) newID(prefix string) string {
	s.seq++
	return fmt.Sprintf("%s-%d-%d", prefix, s.Restarts, s.seq)
}

func (s *RefServer) sendPack(w http.ResponseWriter, sid string, ses *upSession) {
	var buf bytes.Buffer
	done, _, err := ses.sender.WriteObjects(&buf, nil)
	if err != nil {
		delete(s.up, sid)
		httpErr(w, 500, "WriteObjects: "+err.Error())
		return
	}
	if done {
		delete(s.up, sid)
	}
	w.Header().Set("Content-Type", "application/x-wrgl-packfile")
	w.WriteHeader(200)
	w.Write(buf.Bytes())
}

func (s *RefServer) startSending(w http.ResponseWriter, sid string, ses *upSession) {
	var err error
	ses.sender, err = apiutils.NewObjectSender(s.DB, ses.commits, ses.tables, ses.finder.CommonCommmits(), s.Knobs.MaxPackfileSize)
	if err != nil {
		delete(s.up, sid)
		httpErr(w, 500, "NewObjectSender: "+err.Error())
		return
	}
	ses.state = "send"
	s.sendPack(w, sid, ses)
}

func (s *RefServer) nextTableBatch(w http.ResponseWriter, sid string, ses *upSession) {
	if len(ses.candidates) == 0 {
		s.startSending(w, sid, ses)
		return
	}
	n := s.Knobs.TableBatch
	if n > len(ses.candidates) {
		n = len(ses.candidates)
	}
	batch := ses.candidates[:n]
	ses.candidates = ses.candidates[n:]
	ses.state = "tables"
	writeJSON(w, 200, &payload.UploadPackResponse{TableHaves: payload.BytesSliceToHexSlice(batch)})
}

func (s *RefServer) uploadPack(w http.ResponseWriter, r *http.Request) {
	s.UploadReqs++
	body, _ := io.ReadAll(r.Body)
	req := &payload.UploadPackRequest{}
	if err := json.Unmarshal(body, req); err != nil {
		httpErr(w, 400, "bad json: "+err.Error())
		return
	}
	sid := s.cookie(r, "upload-pack-session-id")
	ses := s.up[sid]
	if ses == nil {
		if len(req.Wants) == 0 {
			httpErr(w, 400, "empty wants list")
			return
		}
		sid = s.newID("up")
		var frs ref.Store = s.RS
		if s.rsProxy != nil {
			frs = s.rsProxy
		}
		ses = &upSession{finder: apiutils.NewClosedSetsFinder(s.DB, frs, req.Depth), state: "negotiate"}
		s.up[sid] = ses
		http.SetCookie(w, &http.Cookie{Name: "upload-pack-session-id", Value: sid, Path: "/"})
	} else {
		req.Wants = nil
	}
	switch ses.state {
	case "negotiate":
		acks, err := ses.finder.Process(payload.HexSliceToBytesSlice(req.Wants), payload.HexSliceToBytesSlice(req.Haves), req.Done)
		if err != nil {
			delete(s.up, sid)
			httpErr(w, 400, err.Error())
			return
		}
		if len(ses.finder.Wants) > 0 {
			writeJSON(w, 200, &payload.UploadPackResponse{ACKs: payload.BytesSliceToHexSlice(acks)})
			return
		}
		ses.commits, err = ses.finder.CommitsToSend()
		if err == nil {
			ses.tables, err = ses.finder.TablesToSend()
		}
		if err != nil {
			delete(s.up, sid)
			httpErr(w, 500, err.Error())
			return
		}
		if s.Knobs.TableBatch > 0 {
			keys := make([]string, 0, len(ses.tables))
			for k := range ses.tables {
				keys = append(keys, k)
			}
			sort.Strings(keys)
			for _, k := range keys {
				ses.candidates = append(ses.candidates, []byte(k))
			}
			s.nextTableBatch(w, sid, ses)
			return
		}
		s.startSending(w, sid, ses)
	case "tables":
		for _, a := range req.TableACKs {
			delete(ses.tables, string((*a)[:]))
		}
		s.nextTableBatch(w, sid, ses)
	case "send":
		s.sendPack(w, sid, ses)
	}
}

func (s *RefServer) applyUpdates(updates map[string]*payload.Update) {
	names := make([]string, 0, len(updates))
	for k := range updates {
		names = append(names, k)
	}
	sort.Strings(names)
	for _, name := range names {
		u := updates[name]
		if u.ErrMsg != "" {
			continue
		}
		cur, _ := ref.GetRef(s.RS, name)
		var old []byte
		if u.OldSum != nil {
			old = (*u.OldSum)[:]
		}
		if !bytes.Equal(cur, old) {
			u.ErrMsg = "remote ref updated since checkout"
			continue
		}
		if u.Sum == nil {
			if err := ref.DeleteRef(s.RS, name); err != nil {
				u.ErrMsg = err.Error()
				continue
			}
			s.RefUpdates = append(s.RefUpdates, RefTransition{Name: name, Old: cur, New: nil, Method: "receive-pack"})
			continue
		}
		sum := (*u.Sum)[:]
		if !objects.CommitExist(s.DB, sum) {
			u.ErrMsg = "remote did not receive commit"
			continue
		}
		if err := ref.SaveRef(s.RS, name, sum, "remote", "remote@sim", "receive-pack", "update ref", nil); err != nil {
			u.ErrMsg = err.Error()
			continue
		}
		s.RefUpdates = append(s.RefUpdates, RefTransition{Name: name, Old: cur, New: sum, Method: "receive-pack"})
	}
}

func cloneUpdates(m map[string]*payload.Update) map[string]*payload.Update {
	c := map[string]*payload.Update{}
	for k, v := range m {
		u := *v
		c[k] = &u
	}
	return c
}

func (s *RefServer) receivePack(w http.ResponseWriter, r *http.Request) {
	sid := s.cookie(r, "receive-pack-session-id")
	ses := s.rp[sid]
	ct := r.Header.Get("Content-Type")
	if strings.HasPrefix(ct, "application/json") {
		body, _ := io.ReadAll(r.Body)
		req := &payload.ReceivePackRequest{}
		if err := json.Unmarshal(body, req); err != nil {
			httpErr(w, 400, "bad json")
			return
		}
		if ses == nil {
			if len(req.Updates) == 0 {
				httpErr(w, 400, "no updates")
				return
			}
			s.Received = append(s.Received, cloneUpdates(req.Updates))
			needObjects := false
			var expected [][]byte
			for name, u := range req.Updates {
				cur, _ := ref.GetRef(s.RS, name)
				var old []byte
				if u.OldSum != nil {
					old = (*u.OldSum)[:]
				}
				switch {
				case !bytes.Equal(cur, old):
					u.ErrMsg = "remote ref updated since checkout"
				case u.Sum == nil:
					if s.Knobs.DenyDeletes {
						u.ErrMsg = "remote does not support deleting refs"
					}
				default:
					sum := (*u.Sum)[:]
					if cur != nil && s.Knobs.DenyNonFF && objects.CommitExist(s.DB, sum) {
						if ff, err := ref.IsAncestorOf(s.DB, cur, sum); err == nil && !ff {
							u.ErrMsg = "remote does not support non-fast-forwards"
						}
					}
					if u.ErrMsg == "" && !objects.CommitExist(s.DB, sum) {
						needObjects = true
						expected = append(expected, sum)
					}
				}
			}
			if !needObjects {
				s.applyUpdates(req.Updates)
				writeJSON(w, 200, &payload.ReceivePackResponse{Updates: req.Updates})
				return
			}
			sid = s.newID("rp")
			ses = &rpSession{updates: req.Updates, receiver: apiutils.NewObjectReceiver(s.DB, expected, logr.Discard())}
			s.rp[sid] = ses
			http.SetCookie(w, &http.Cookie{Name: "receive-pack-session-id", Value: sid, Path: "/"})
		}
		var acks [][]byte
		for _, h := range req.TableHaves {
			if objects.TableExist(s.DB, (*h)[:]) {
				acks = append(acks, (*h)[:])
			}
		}
		writeJSON(w, 200, &payload.ReceivePackResponse{TableACKs: payload.BytesSliceToHexSlice(acks)})
		return
	}
	if ct == "application/x-wrgl-packfile" {
		if ses == nil {
			httpErr(w, 400, "no receive-pack session")
			return
		}
		var rd io.Reader = r.Body
		if r.Header.Get("Content-Encoding") == "gzip" {
			gz, err := gzip.NewReader(r.Body)
			if err != nil {
				delete(s.rp, sid)
				httpErr(w, 400, "bad gzip")
				return
			}
			rd = gz
		}
		pr, err := packfile.NewPackfileReader(io.NopCloser(rd))
		if err != nil {
			delete(s.rp, sid)
			httpErr(w, 400, err.Error())
			return
		}
		done, err := ses.receiver.Receive(pr, nil)
		if err != nil {
			delete(s.rp, sid)
			httpErr(w, 400, err.Error())
			return
		}
		if ses.finished {
			// the client goes on sending until its own sender is done (it reads the report off the last
			// reply): objects beyond the commits this side waited for are stored, the report is repeated
			writeJSON(w, 200, &payload.ReceivePackResponse{Updates: ses.updates})
			return
		}
		if !done {
			w.WriteHeader(200)
			return
		}
		ses.finished = true
		// the non-fast-forward policy can only be judged once the objects are here
		if s.Knobs.DenyNonFF {
			for name, u := range ses.updates {
				if u.ErrMsg != "" || u.Sum == nil {
					continue
				}
				cur, _ := ref.GetRef(s.RS, name)
				if cur != nil {
					if ff, err := ref.IsAncestorOf(s.DB, cur, (*u.Sum)[:]); err == nil && !ff {
						u.ErrMsg = "remote does not support non-fast-forwards"
					}
				}
			}
		}
		s.applyUpdates(ses.updates)
		writeJSON(w, 200, &payload.ReceivePackResponse{Updates: ses.updates})
		return
	}
	httpErr(w, 415, "unsupported content type "+ct)
}

func (s *RefServer) getObjects(w http.ResponseWriter, r *http.Request) {
	var buf bytes.Buffer
	pw, err := packfile.NewPackfileWriter(&buf)
	if err != nil {
		httpErr(w, 500, err.Error())
		return
	}
	for _, h := range strings.Split(r.URL.Query().Get("tables"), ",") {
		if h == "" {
			continue
		}
		hx := &payload.Hex{}
		if err := hx.UnmarshalJSON([]byte(`"` + h + `"`)); err != nil {
			httpErr(w, 400, "bad table sum")
			return
		}
		tbl, err := objects.GetTable(s.DB, (*hx)[:])
		if err != nil {
			httpErr(w, 404, "table not found")
			return
		}
		for _, b := range tbl.Blocks {
			bb, err := objects.GetBlockBytes(s.DB, b)
			if err != nil {
				httpErr(w, 500, err.Error())
				return
			}
			pw.WriteObject(packfile.ObjectBlock, bb)
		}
		var tb bytes.Buffer
		tbl.WriteTo(&tb)
		pw.WriteObject(packfile.ObjectTable, tb.Bytes())
	}
	w.Header().Set("Content-Type", "application/x-wrgl-packfile")
	w.WriteHeader(200)
	w.Write(buf.Bytes())
}
