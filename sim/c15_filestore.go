package sim

// C15 (file store): the legacy file-based ref store (pkg/ref/fs, not used by the
// CLI) checked against the same map + logs model for the operations it
// implements: point operations, logged sets, rename/copy of refs that have a
// log, log reads, and listing by one directory-aligned prefix.

import (
	"bytes"
	"encoding/json"
	"errors"
	"fmt"
	"io"
	"os"
	"strings"
	"testing"

	"github.com/wrgl/wrgl/pkg/ref"
	reffs "github.com/wrgl/wrgl/pkg/ref/fs"
)

var c15fsNames = []string{"heads/a", "heads/A", "heads/a_b", "heads/a%", "heads/ab", "heads/b", "remotes/o/x", "remotes/o/y", "remotes/o_/x", "remotes/O/x", "tags/t", "tags/T"}
var c15fsPrefixes = []string{"", "heads/", "remotes/", "remotes/o/", "remotes/o_/", "remotes/O/", "tags/"}

func init() {
	Register(&Profile{
		ID: "C15fs", Prop: "C15",
		Rule: "file ref store (pkg/ref/fs): sequences (<=30) of set / logged set / delete / get / rename / copy (of refs that have a log) / log read / list by one directory-aligned prefix over names with '_', '%' and case variants; dump compared with the map+logs model after every step; non-trivial = >=6 ops incl. a listing and a rename/copy; distinct by plan hash",
		Gen: func(seed uint64, tier string) any {
			r := NewRand(seed)
			var p C15Plan
			n := r.Range(3, 30)
			for i := 0; i < n; i++ {
				x := r.Intn(100)
				name := func() string { return Pick(r, c15fsNames) }
				switch {
				case x < 15:
					p.Ops = append(p.Ops, C15Op{Op: "set", A: name()})
				case x < 45:
					p.Ops = append(p.Ops, C15Op{Op: "setlog", A: name()})
				case x < 55:
					p.Ops = append(p.Ops, C15Op{Op: "del", A: name()})
				case x < 65:
					p.Ops = append(p.Ops, C15Op{Op: "rename", A: name(), B: name()})
				case x < 73:
					p.Ops = append(p.Ops, C15Op{Op: "copy", A: name(), B: name()})
				case x < 80:
					p.Ops = append(p.Ops, C15Op{Op: "get", A: name()})
				default:
					p.Ops = append(p.Ops, C15Op{Op: "filter", P: []string{Pick(r, c15fsPrefixes)}})
				}
			}
			return p
		},
		Exec: execC15fs,
	})
}

func execC15fs(t *testing.T, raw json.RawMessage, res *Result) {
	var p C15Plan
	if err := json.Unmarshal(raw, &p); err != nil || len(p.Ops) > 300 {
		res.Invalid("plan: %v", err)
		return
	}
	dir, err := os.MkdirTemp("", "c15fs-")
	if err != nil {
		res.Invalid("%v", err)
		return
	}
	defer os.RemoveAll(dir)
	st := reffs.NewStore(dir)
	model := &c15Model{m: map[string][]byte{}, logs: map[string][]c15Log{}}
	ctr := 0
	newVal := func() []byte { ctr++; return meowSum([]byte(fmt.Sprintf("v%d", ctr))) }
	okName := func(s string) bool {
		for _, n := range c15fsNames {
			if n == s {
				return true
			}
		}
		return false
	}
	dump := func(when string) bool {
		for _, name := range c15fsNames {
			v, err := st.Get(name)
			w, ok := model.m[name]
			if ok != (err == nil) || (ok && !bytes.Equal(v, w)) {
				res.Violate("state-differs", "%s: Get(%q) = %x err=%v, model %x present=%v", when, name, v, err, w, ok)
				return false
			}
			want := model.logs[name]
			lr, err := st.LogReader(name)
			if err != nil {
				if len(want) > 0 {
					res.Violate("log-differs", "%s: LogReader(%q): %v, model has %d entries", when, name, err, len(want))
					return false
				}
				continue
			}
			var got []*ref.Reflog
			for len(got) <= len(want)+3 {
				rl, err := lr.Read()
				if errors.Is(err, io.EOF) {
					break
				}
				if err != nil {
					res.Violate("log-differs", "%s: reading log of %q: %v", when, name, err)
					lr.Close()
					return false
				}
				got = append(got, rl)
			}
			lr.Close()
			if len(got) != len(want) {
				res.Violate("log-differs", "%s: log of %q has %d entries, model %d", when, name, len(got), len(want))
				return false
			}
			for i, g := range got {
				w := want[len(want)-1-i]
				if !bytes.Equal(g.NewOID, w.New) || !bytes.Equal(g.OldOID, w.Old) || g.Message != w.Msg {
					res.Violate("log-differs", "%s: log of %q entry %d (newest first): old=%x new=%x %q, model old=%x new=%x %q", when, name, i, g.OldOID, g.NewOID, g.Message, w.Old, w.New, w.Msg)
					return false
				}
			}
		}
		return true
	}
	listing, moves := 0, 0
	for i, op := range p.Ops {
		when := fmt.Sprintf("op %d %s(%s,%s)", i, op.Op, op.A, op.B)
		switch op.Op {
		case "set", "setlog", "del", "get", "rename", "copy":
			if !okName(op.A) || ((op.Op == "rename" || op.Op == "copy") && !okName(op.B)) {
				res.Invalid("name")
				return
			}
		}
		switch op.Op {
		case "set":
			v := newVal()
			if err := st.Set(op.A, v); err != nil {
				res.Violate("store-error", "%s: %v", when, err)
				return
			}
			model.m[op.A] = v
		case "setlog":
			v := newVal()
			msg := fmt.Sprintf("m%d", ctr)
			if err := ref.SaveRef(st, op.A, v, "au", "au@x", "act", msg, nil); err != nil {
				res.Violate("store-error", "%s: %v", when, err)
				return
			}
			model.logs[op.A] = append(model.logs[op.A], c15Log{Old: model.m[op.A], New: v, Action: "act", Msg: msg})
			model.m[op.A] = v
		case "del":
			err := st.Delete(op.A)
			if _, ok := model.m[op.A]; ok && err != nil {
				res.Violate("store-error", "%s: %v", when, err)
				return
			}
			delete(model.m, op.A)
			delete(model.logs, op.A)
		case "get":
			// covered by dump
		case "rename", "copy":
			_, srcOK := model.m[op.A]
			_, dstOK := model.m[op.B]
			if !srcOK || dstOK || op.A == op.B || len(model.logs[op.A]) == 0 {
				continue // outside what the file store implements (overwrite / log-less copy)
			}
			moves++
			var err error
			if op.Op == "rename" {
				err = st.Rename(op.A, op.B)
			} else {
				err = st.Copy(op.A, op.B)
			}
			if err != nil {
				res.Violate("store-error", "%s: %v", when, err)
				return
			}
			model.m[op.B] = model.m[op.A]
			model.logs[op.B] = append([]c15Log(nil), model.logs[op.A]...)
			if op.Op == "rename" {
				delete(model.m, op.A)
				delete(model.logs, op.A)
			}
		case "filter":
			if len(op.P) != 1 {
				res.Invalid("one prefix")
				return
			}
			ok := false
			for _, x := range c15fsPrefixes {
				if x == op.P[0] {
					ok = true
				}
			}
			if !ok {
				res.Invalid("prefix")
				return
			}
			listing++
			got, err := st.Filter(op.P, nil)
			if err != nil {
				res.Violate("store-error", "%s: %v", when, err)
				return
			}
			want := map[string][]byte{}
			for k, v := range model.m {
				if strings.HasPrefix(k, op.P[0]) {
					want[k] = v
				}
			}
			if d := mapsEqual(got, want); d != "" {
				res.Violate("filter-wrong", "%s prefix %q: %s", when, op.P[0], d)
				return
			}
		default:
			res.Invalid("op")
			return
		}
		if !dump(when) {
			return
		}
	}
	res.stat("sim_steps", float64(len(p.Ops)))
	res.Nontrivial = len(p.Ops) >= 6 && listing >= 1 && moves >= 1
}
