package sim

import (
	"errors"
	"io"
)

// SimFile: in-memory file with os.File semantics (read at EOF = 0, io.EOF;
// seek past end + write zero-fills; short read at the tail). Reopenable.
type SimFile struct {
	Data   *[]byte
	pos    int64
	closed bool
	// fault injection
	FailWriteAt int // 1-based write call that fails (0 = never)
	FailReadIn  int // >0: the FailReadIn-th Read from now fails once (transient I/O error)
	ReadFaults  int
	writes      int
	Writes      int
	Reads       int
}

func NewSimFile() *SimFile { d := []byte{}; return &SimFile{Data: &d} }

// Reopen returns a fresh handle on the same bytes.
func (f *SimFile) Reopen() *SimFile { return &SimFile{Data: f.Data} }

func (f *SimFile) Read(p []byte) (int, error) {
	if f.closed {
		return 0, errors.New("simfile: read on closed file")
	}
	f.Reads++
	if f.FailReadIn > 0 {
		f.FailReadIn--
		if f.FailReadIn == 0 {
			f.ReadFaults++
			return 0, errors.New("simfile: injected read error")
		}
	}
	d := *f.Data
	if f.pos >= int64(len(d)) {
		if len(p) == 0 {
			return 0, nil
		}
		return 0, io.EOF
	}
	n := copy(p, d[f.pos:])
	f.pos += int64(n)
	return n, nil
}

func (f *SimFile) Write(p []byte) (int, error) {
	if f.closed {
		return 0, errors.New("simfile: write on closed file")
	}
	f.writes++
	f.Writes++
	if f.FailWriteAt > 0 && f.writes == f.FailWriteAt {
		return 0, errors.New("simfile: injected write error")
	}
	d := *f.Data
	end := f.pos + int64(len(p))
	if end > int64(len(d)) {
		nd := make([]byte, end)
		copy(nd, d)
		d = nd
	}
	copy(d[f.pos:], p)
	*f.Data = d
	f.pos = end
	return len(p), nil
}

func (f *SimFile) Seek(off int64, whence int) (int64, error) {
	if f.closed {
		return 0, errors.New("simfile: seek on closed file")
	}
	var np int64
	switch whence {
	case io.SeekStart:
		np = off
	case io.SeekCurrent:
		np = f.pos + off
	case io.SeekEnd:
		np = int64(len(*f.Data)) + off
	}
	if np < 0 {
		return 0, errors.New("simfile: negative position")
	}
	f.pos = np
	return np, nil
}

func (f *SimFile) Close() error { f.closed = true; return nil }
