package sim

// C17: corruption as a fault at a seam. (a) disk: one stored value of a real
// repository is corrupted and read through every public reader; (b) wire:
// packfiles fed to ObjectReceiver.Receive are mutated; replies of the remote
// are truncated / bit-flipped in simnet during a real fetch (profile C17w).
// Oracle: returns (error or success), no panic, bounded allocation, nothing
// from a rejected object left referenced.

import (
	"bytes"
	"context"
	"encoding/binary"
	"encoding/json"
	"fmt"
	"io"
	"runtime"
	"strings"
	"testing"
	"time"

	"github.com/go-logr/logr"
	"github.com/klauspost/compress/s2"
	apiutils "github.com/wrgl/wrgl/pkg/api/utils"
	"github.com/wrgl/wrgl/pkg/conf"
	"github.com/wrgl/wrgl/pkg/doctor"
	"github.com/wrgl/wrgl/pkg/encoding"
	"github.com/wrgl/wrgl/pkg/encoding/packfile"
	"github.com/wrgl/wrgl/pkg/encoding/pktline"
	"github.com/wrgl/wrgl/pkg/objects"
	"github.com/wrgl/wrgl/pkg/prune"
)

type Corruption struct {
	Kind  string `json:"kind"`  // flip | truncate | inflate32 | inflate16 | label | zero | append
	Off   int    `json:"off"`   // offset (mod length)
	Bit   int    `json:"bit"`   // for flip
	Inner bool   `json:"inner"` // corrupt the uncompressed content of blk/blkidx and re-compress
}

type C17Plan struct {
	Kind   string     `json:"kind"` // disk | packfile | decoder
	Repo   RepoSpec   `json:"repo"`
	Target string     `json:"target"` // key prefix to corrupt: com/ tbl/ blk/ blkidx/ tblidx/ tblsum/
	Pick   int        `json:"pick"`   // which key with that prefix
	Corr   Corruption `json:"corr"`
	Stream C18Plan    `json:"stream"` // decoder kind: a valid stream to mutate
	Forged *Forged    `json:"forged,omitempty"` // forged kind: a packfile of well-formed objects that contradict each other
}

// Forged describes a hand-built packfile: one block, the table listing it, the commit of that table.
// Every object is well-formed and stored under its true hash; the contradiction is structural.
type Forged struct {
	Cols     int   `json:"cols"`      // columns the table declares
	PK       []int `json:"pk"`        // primary key indices the table declares
	Widths   []int `json:"widths"`    // cells in each row of the block
	RowsDecl int   `json:"rows_decl"` // row count the table declares
	GoodIdx  bool  `json:"good_idx"`  // the table lists the block index a keyless indexer would compute for these rows
	// KnownIdx: the receiving store already holds a block index (of an honest block of full-width rows, from an
	// earlier fetch) and the forged table names that one as the index of its block
	KnownIdx bool `json:"known_idx,omitempty"`
	// OtherIdx (with KnownIdx): every row has the declared width, the key is in range, the row count is right - the
	// only lie is that the block index named (held by the receiver) is the honest index of another block of the
	// same shape: the table would be stored with an index that maps none of its rows
	OtherIdx bool `json:"other_idx,omitempty"`
	// Variant "" = contradicting block/table/commit; "commit-time": a commit whose 16-byte time field holds TimeField
	// instead of "<10 digits> <zone>"; "long-header": an object header of HeaderCont continuation bytes (HeaderByte each)
	Variant    string `json:"variant,omitempty"`
	TimeField  string `json:"time_field,omitempty"`
	HeaderCont int    `json:"header_cont,omitempty"`
	HeaderByte int    `json:"header_byte,omitempty"`
}

func init() {
	Register(&Profile{
		ID: "C17", Prop: "C17",
		Rule: "corruption as a seam fault: (disk) one stored object of a generated repository is bit-flipped / truncated / given an inflated 32- or 16-bit count or a wrong label (raw or inside the s2 frame) and read through GetCommit/GetTable/GetBlock/GetBlockIndex/GetTableIndex/GetTableProfile, a table scan, IndexTable, doctor, diff and prune; (packfile) a valid packfile is mutated the same way and fed to ObjectReceiver.Receive; (decoder) every stream kind of C18 mutated and decoded; oracle: returns, no panic, allocation <= 64 x input + 16 MiB, nothing from a rejected packfile object referenced; every case is non-trivial (one corruption each); distinct by plan hash",
		Gen: func(seed uint64, tier string) any {
			r := NewRand(seed)
			p := C17Plan{Kind: Pick(r, []string{"disk", "disk", "packfile", "decoder"})}
			p.Repo = GenRepoSpec(r.Sub("repo"), 5, 300)
			p.Target = Pick(r, []string{"com/", "tbl/", "blk/", "blkidx/", "tblidx/", "tblsum/"})
			p.Pick = r.Intn(100)
			p.Corr = Corruption{Kind: Pick(r, []string{"flip", "flip", "truncate", "inflate32", "inflate16", "label", "zero", "append"}), Off: r.Intn(100000), Bit: r.Intn(8), Inner: r.Chance(0.6)}
			if r.Chance(0.3) {
				p.Corr.Off = r.Intn(40) // headers and counts live at the front
			}
			if seed%64 == 0 {
				// trigger plan of known finding C17-s2-block-length
				p.Kind, p.Target, p.Corr = "disk", "blk/", Corruption{Kind: "inflate32", Off: 0}
			}
			if seed%64 != 0 && r.Chance(0.1) {
				p.Kind = "forged"
				f := &Forged{Cols: r.Range(1, 4), RowsDecl: -1, GoodIdx: r.Chance(0.6)}
				nrows := r.Range(1, 5)
				for i := 0; i < nrows; i++ {
					wd := f.Cols
					if r.Chance(0.4) {
						wd = Pick(r, []int{0, 1, f.Cols - 1, f.Cols + 1, 2})
						if wd < 0 {
							wd = 0
						}
					}
					f.Widths = append(f.Widths, wd)
				}
				if r.Chance(0.7) {
					f.Widths[0] = f.Cols // the first row often looks right
				}
				for k := r.Range(0, 2); k > 0; k-- {
					f.PK = append(f.PK, r.Intn(f.Cols+1)) // may point one past the columns
				}
				if r.Chance(0.3) {
					f.RowsDecl = Pick(r, []int{0, 1, nrows + 1, 255, 256})
				}
				f.KnownIdx = r.Chance(0.35)
				if ro := r.Sub("otheridx"); ro.Chance(0.2) {
					f.KnownIdx, f.OtherIdx, f.RowsDecl, f.PK = true, true, -1, []int{ro.Intn(f.Cols)}
					for i := range f.Widths {
						f.Widths[i] = f.Cols
					}
				}
				switch r.Intn(7) {
				case 5:
					// a pkt-line whose 4-character length is not four hex digits but parses as a number
					f.Variant = "pktline-prefix"
					f.TimeField = Pick(r, []string{"-001", "-fff", "+005", "-000", "0x05", " 005", "00-1", "-7ff", "+fff", "1e02"}) + Pick(r, []string{"", "a", "hello\n", "0000", "0006a\n0000"})
				case 6:
					// a string list / block whose cell length prefix is 0xFFFE or 0xFFFF (the largest legal cells), with
					// and without the bytes to go with it
					f.Variant = "strlist-maxlen"
					f.HeaderCont = r.Range(1, 12)             // cells announced
					f.HeaderByte = Pick(r, []int{0xfe, 0xff}) // low byte of the length
					f.GoodIdx = r.Chance(0.3)                 // true: the cell bytes really follow
				case 0:
					f.Variant = "commit-time"
					f.TimeField = Pick(r, []string{"1700000000000 +0", "17000000000 +070", "170000000000000 ", "               0", " 1700000000+0700", "1700000000 +07:0", "1700000000+07000", "0000000000 -9999", "9999999999 +2400", "1700000000 \x00\x00\x00\x00\x00", "-000000001 +0000", "1e9        +0000"})
				case 1:
					f.Variant = "long-header"
					f.HeaderCont = Pick(r, []int{8, 9, 10, 11, 12, 20, 64, 300})
					f.HeaderByte = Pick(r, []int{0x80, 0xff, 0x81})
				}
				p.Forged = f
				return p
			}
			if p.Kind == "decoder" {
				p.Stream = C18Plan{Kind: Pick(r, c18Kinds), DataSeed: r.Uint64()}
				for i := r.Range(1, 4); i > 0; i-- {
					p.Stream.Sizes = append(p.Stream.Sizes, Pick(r, []int{0, 1, 3, 16, 100, 300}))
				}
			}
			return p
		},
		Exec: execC17,
	})
}

func corrupt(b []byte, c Corruption) []byte {
	out := append([]byte(nil), b...)
	if len(out) == 0 {
		return []byte{0xff, 0xff, 0xff, 0xff}
	}
	off := c.Off % len(out)
	if off < 0 {
		off = -off
	}
	switch c.Kind {
	case "flip":
		out[off] ^= 1 << uint(c.Bit%8)
	case "truncate":
		out = out[:off]
	case "inflate32":
		if off+4 > len(out) {
			off = 0
		}
		if len(out) >= 4 {
			binary.BigEndian.PutUint32(out[off:], 0xFFFFFFF0)
		}
	case "inflate16":
		if off+2 > len(out) {
			off = 0
		}
		if len(out) >= 2 {
			binary.BigEndian.PutUint16(out[off:], 0xFFFF)
		}
	case "label":
		// change a byte of the first label-looking run of letters after off
		for i := off; i < len(out); i++ {
			if out[i] >= 'a' && out[i] <= 'z' {
				out[i]++
				break
			}
		}
	case "zero":
		for i := off; i < len(out) && i < off+8; i++ {
			out[i] = 0
		}
	case "append":
		out = append(out, 0xff, 0xff, 0xff, 0xf0, 0, 1, 2, 3)
	}
	return out
}

// guarded runs f with panic capture and an allocation measurement.
// s2Claim is the largest decoded length announced by an s2 block frame in the
// corrupted input of the current case (0 = none): s2.Decode allocates it
// before validating anything (known finding C17-s2-block-length).
var s2Claim int

func guarded(res *Result, what string, inputLen int, f func() error) bool {
	var ms0, ms1 runtime.MemStats
	runtime.ReadMemStats(&ms0)
	var pv any
	var stack string
	done := make(chan struct{})
	start := time.Now()
	go func() {
		defer close(done)
		defer func() {
			if e := recover(); e != nil {
				pv = e
				stack = string(debugStack())
			}
		}()
		f()
	}()
	select {
	case <-done:
	case <-time.After(20 * time.Second):
		res.Violate("hang", "%s did not return within 20 s", what)
		return false
	}
	_ = start
	if pv != nil {
		if isRepoPanic(stack) || strings.Contains(stack, "github.com/wrgl/wrgl") {
			res.Violate("panic:"+panicSite(stack), "%s panicked: %v\n%s", what, pv, trimStack(stack))
		} else {
			res.Invalid("harness panic in %s: %v\n%s", what, pv, trimStack(stack))
		}
		return false
	}
	runtime.ReadMemStats(&ms1)
	alloc := ms1.TotalAlloc - ms0.TotalAlloc
	if bound := uint64(64*inputLen) + (16 << 20); alloc > bound {
		if s2Claim > 0 && alloc <= bound+4*uint64(s2Claim) {
			res.Violate("alloc-blowup:s2-announced-block-length", "%s allocated %d bytes for %d bytes of input: the s2 frame of a block announces %d decoded bytes and s2.Decode allocates that before reading the data", what, alloc, inputLen, s2Claim)
			return false
		}
		res.Violate("alloc-blowup", "%s allocated %d bytes for %d bytes of input", what, alloc, inputLen)
		return false
	}
	return true
}

func panicSite(stack string) string {
	lines := strings.Split(stack, "\n")
	seen := false
	for _, l := range lines {
		if strings.HasPrefix(l, "panic(") {
			seen = true
			continue
		}
		if seen && strings.HasPrefix(l, "github.com/wrgl/wrgl/") {
			l = strings.TrimPrefix(l, "github.com/wrgl/wrgl/")
			if i := strings.IndexByte(l, '('); i > 0 {
				// keep pkg path + func name, drop args
				j := strings.LastIndex(l, "(")
				if j > 0 {
					l = l[:j]
				}
			}
			return l
		}
	}
	return "unknown"
}

func execC17(t *testing.T, raw json.RawMessage, res *Result) {
	var p C17Plan
	if err := json.Unmarshal(raw, &p); err != nil {
		res.Invalid("plan: %v", err)
		return
	}
	switch p.Kind {
	case "forged":
		execC17Forged(&p, res)
		return
	case "disk", "packfile":
		if err := p.Repo.Validate(); err != nil || p.Repo.Graph.N() == 0 || p.Repo.Graph.N() > 30 {
			res.Invalid("plan: %v", err)
			return
		}
	case "decoder":
	default:
		res.Invalid("kind")
		return
	}
	res.Nontrivial = true
	s2Claim = 0
	res.fault("corruption_"+p.Corr.Kind, 1)
	if p.Kind == "decoder" {
		if len(p.Stream.Sizes) > 50 {
			res.Invalid("sizes")
			return
		}
		stream, decode, err := c18Build(&p.Stream)
		if err != nil {
			res.Invalid("build: %v", err)
			return
		}
		bad := corrupt(stream, p.Corr)
		guarded(res, "decoding a corrupted "+p.Stream.Kind+" stream", len(bad), func() error { decode(bytes.NewReader(bad)); return nil })
		if p.Stream.Kind == "profile" {
			// a profile that declares fewer fields than this version knows and uses a field index beyond its own list
			for nf := 0; nf <= 3; nf++ {
				for idx := 1; idx <= 13; idx++ {
					hand := handProfile(nf, idx)
					if !guarded(res, fmt.Sprintf("decoding a table profile declaring %d fields and using field index %d", nf, idx), len(hand), func() error {
						tp := &objects.TableProfile{}
						_, err := tp.ReadFrom(bytes.NewReader(hand))
						return err
					}) {
						return
					}
				}
			}
		}
		if p.Stream.Kind == "pktline" {
			guarded(res, "ReadPktLine", len(bad), func() error {
				ps := encoding.NewParser(bytes.NewReader(bad))
				for i := 0; i < 100; i++ {
					if _, err := pktline.ReadPktLine(ps); err != nil {
						break
					}
				}
				return nil
			})
		}
		if p.Stream.Kind == "block" || p.Stream.Kind == "strlist" {
			guarded(res, "ValidateBlockBytes", len(bad), func() error { return objects.ValidateBlockBytes(bad) })
			guarded(res, "ValidateStrListBytes", len(bad), func() error { _, err := objects.ValidateStrListBytes(bad); return err })
		}
		return
	}
	w := &World{}
	st := NewStore("L", w)
	br, err := p.Repo.Build(t, st)
	if err != nil {
		res.Invalid("build: %v", err)
		return
	}
	if p.Kind == "packfile" {
		execC17Packfile(t, &p, st, br, res)
		return
	}
	keys := st.Keys(p.Target)
	if len(keys) == 0 {
		res.Skip("no object with prefix %s", p.Target)
		return
	}
	key := keys[p.Pick%len(keys)]
	val, _ := st.Raw(key)
	var bad []byte
	if p.Corr.Inner && (p.Target == "blk/" || p.Target == "blkidx/") {
		rawv, err := s2.Decode(nil, val)
		if err != nil {
			res.Invalid("s2: %v", err)
			return
		}
		bad = s2.EncodeBetter(nil, corrupt(rawv, p.Corr))
		res.probe("inner_corruption", 1)
	} else {
		bad = corrupt(val, p.Corr)
	}
	st.RawSet(key, bad)
	if p.Target == "blk/" {
		if n, err := s2.DecodedLen(bad); err == nil {
			s2Claim = n
		}
	}
	sum := []byte(key[strings.IndexByte(key, '/')+1:])
	in := len(bad)
	ok := true
	run := func(what string, f func() error) {
		if ok {
			ok = guarded(res, what+" with corrupted "+FmtKey(key)+" ("+p.Corr.Kind+")", in+4096, f)
		}
	}
	run("GetCommit", func() error { _, err := objects.GetCommit(st, sum); return err })
	run("GetTable", func() error { _, err := objects.GetTable(st, sum); return err })
	run("GetBlock", func() error { _, _, err := objects.GetBlock(st, nil, sum); return err })
	run("GetBlockIndex", func() error { _, _, err := objects.GetBlockIndex(st, nil, sum); return err })
	run("GetTableIndex", func() error { _, err := objects.GetTableIndex(st, sum); return err })
	run("GetTableProfile", func() error { _, err := objects.GetTableProfile(st, sum); return err })
	// every table / commit through the higher-level readers
	for _, ts := range br.Tables {
		ts := ts
		run("table scan", func() error {
			tbl, err := objects.GetTable(st, ts)
			if err != nil {
				return err
			}
			for _, b := range tbl.Blocks {
				if _, _, err := objects.GetBlock(st, nil, b); err != nil {
					return err
				}
			}
			for _, b := range tbl.BlockIndices {
				if _, _, err := objects.GetBlockIndex(st, nil, b); err != nil {
					return err
				}
			}
			return nil
		})
		run("diff of a table against the base table", func() error {
			_, err := runDiff(st, st, ts, br.Tables[0])
			return err
		})
	}
	rs := NewMemRef()
	for i, c := range br.Commits {
		rs.Set(fmt.Sprintf("heads/b%d", i), c)
	}
	run("doctor.Diagnose", func() error {
		d := doctor.NewDoctor(st, rs, conf.User{Name: "u", Email: "u@x"}, logr.Discard())
		ch, errCh, err := d.Diagnose(context.Background(), nil, nil, nil)
		if err != nil {
			return err
		}
		for range ch {
		}
		for e := range errCh {
			if e != nil {
				return e
			}
		}
		return nil
	})
	run("prune", func() error { return prune.Prune(st, rs, nil) })
}

func execC17Packfile(t *testing.T, p *C17Plan, src *Store, br *BuiltRepo, res *Result) {
	var toSend []*objects.Commit
	tables := map[string]struct{}{}
	for _, c := range br.Commits {
		com, err := objects.GetCommit(src, c)
		if err != nil {
			res.Invalid("%v", err)
			return
		}
		toSend = append(toSend, com)
		tables[string(com.Table)] = struct{}{}
	}
	sender, err := apiutils.NewObjectSender(src, toSend, tables, nil, 0)
	if err != nil {
		res.Invalid("sender: %v", err)
		return
	}
	var buf bytes.Buffer
	if _, _, err := sender.WriteObjects(&buf, nil); err != nil {
		res.Invalid("write: %v", err)
		return
	}
	bad := corrupt(buf.Bytes(), p.Corr)
	// largest decoded length announced by a block object of the mutated packfile
	func() {
		defer func() { recover() }()
		pr, err := packfile.NewPackfileReader(io.NopCloser(bytes.NewReader(bad)))
		if err != nil {
			return
		}
		for i := 0; i < 100000; i++ {
			ot, b, err := pr.ReadObject()
			if err != nil || ot == 0 {
				return
			}
			if ot == packfile.ObjectBlock {
				if n, err := s2.DecodedLen(b); err == nil && n > s2Claim {
					s2Claim = n
				}
			}
		}
	}()
	w := &World{}
	dst := NewStore("dst", w)
	var rerr error
	if !guarded(res, "ObjectReceiver.Receive of a corrupted packfile ("+p.Corr.Kind+")", len(bad), func() error {
		pr, err := packfile.NewPackfileReader(io.NopCloser(bytes.NewReader(bad)))
		if err != nil {
			rerr = err
			return err
		}
		recv := apiutils.NewObjectReceiver(dst, [][]byte{br.Commits[len(br.Commits)-1]}, logr.Discard())
		_, rerr = recv.Receive(pr, nil)
		return rerr
	}) {
		return
	}
	// whatever was stored must be consistent: tables usable, commits with parents
	if c, d := CheckRepoInvariants(dst.Snapshot(), map[string][]byte{}); c != "" {
		res.Violate("rejected-object-left:"+c, "after Receive returned %v: %s", rerr, d)
		return
	}
	// and every stored object must be what its key says
	for _, k := range dst.Keys("") {
		v, _ := dst.Raw(k)
		if e := CheckStoredObjectLenient(k, v); e != "" {
			res.Violate("corrupt-object-stored", "after Receive returned %v: %s", rerr, e)
			return
		}
	}
	if rerr != nil {
		res.probe("packfile_rejected", 1)
	} else {
		res.probe("packfile_accepted", 1)
	}
}

// handProfile builds a table profile stream by hand: nf declared field names,
// one column whose first field index is idx.
func handProfile(nf, idx int) []byte {
	var b bytes.Buffer
	u32 := func(v uint32) []byte { x := make([]byte, 4); binary.BigEndian.PutUint32(x, v); return x }
	u16 := func(v uint16) []byte { x := make([]byte, 2); binary.BigEndian.PutUint16(x, v); return x }
	names := []string{"name", "naCount", "min"}[:nf]
	b.WriteString("version ")
	b.Write(u32(0))
	b.WriteString("\nfields ")
	b.Write(objects.NewStrListEncoder(true).Encode(names))
	b.WriteString("\nrowsCount ")
	b.Write(u32(1))
	b.WriteString("\ncolsCount ")
	b.Write(u32(1))
	b.WriteString("\ncolumns ")
	b.Write(u16(uint16(idx)))
	b.Write(u16(1))
	b.WriteString("x")
	b.Write(u16(0))
	b.WriteString("\n")
	return b.Bytes()
}

// execC17Forged feeds the receiver a packfile whose objects are each well-formed and
// correctly hashed but contradict each other (rows of other widths than the table's
// columns, key indices past a row, a wrong declared row count).
func execC17Forged(p *C17Plan, res *Result) {
	f := p.Forged
	if f == nil || f.Cols < 0 || f.Cols > 16 || len(f.Widths) == 0 || len(f.Widths) > 255 || len(f.PK) > 8 {
		res.Invalid("forged plan")
		return
	}
	res.Nontrivial = true
	s2Claim = 0
	if f.Variant == "pktline-prefix" {
		raw := []byte(f.TimeField)
		if len(raw) < 4 || len(raw) > 100 {
			res.Invalid("pktline prefix")
			return
		}
		res.fault("forged_pktline_length_prefix", 1)
		guarded(res, fmt.Sprintf("ReadPktLine of %q", raw), len(raw), func() error {
			ps := encoding.NewParser(bytes.NewReader(raw))
			for i := 0; i < 10; i++ {
				if _, err := pktline.ReadPktLine(ps); err != nil {
					return err
				}
			}
			return nil
		})
		return
	}
	if f.Variant == "strlist-maxlen" {
		if f.HeaderCont < 1 || f.HeaderCont > 64 || (f.HeaderByte != 0xfe && f.HeaderByte != 0xff) {
			res.Invalid("strlist-maxlen")
			return
		}
		res.fault("forged_strlist_cell_length_ffxx", 1)
		var sl bytes.Buffer
		sl.Write([]byte{0, 0, 0, byte(f.HeaderCont)})
		for i := 0; i < f.HeaderCont; i++ {
			sl.Write([]byte{0xff, byte(f.HeaderByte)})
			if f.GoodIdx {
				sl.Write(bytes.Repeat([]byte{'c'}, 0xff00+f.HeaderByte))
			}
		}
		// as a block of one row
		blk := append([]byte{0, 0, 0, 1}, sl.Bytes()...)
		var verr error
		if !guarded(res, fmt.Sprintf("ValidateBlockBytes of a one-row block whose %d cells announce %#x bytes each (bytes present: %v)", f.HeaderCont, 0xff00+f.HeaderByte, f.GoodIdx), len(blk), func() error {
			verr = objects.ValidateBlockBytes(blk)
			return verr
		}) {
			return
		}
		if f.GoodIdx && verr != nil {
			res.Violate("legal-block-rejected", "a block of one row with %d cells of %d bytes each is well-formed, but ValidateBlockBytes says: %v", f.HeaderCont, 0xff00+f.HeaderByte, verr)
			return
		}
		if !f.GoodIdx && verr == nil {
			res.Violate("truncated-block-accepted", "a block whose cells announce %d bytes each but carry none was accepted by ValidateBlockBytes", 0xff00+f.HeaderByte)
			return
		}
		return
	}
	if f.Variant == "commit-time" || f.Variant == "long-header" {
		execC17ForgedBytes(f, res)
		return
	}
	if f.Variant != "" {
		res.Invalid("variant")
		return
	}
	res.fault("forged_contradicting_objects", 1)
	cols := make([]string, f.Cols)
	for i := range cols {
		cols[i] = fmt.Sprintf("c%d", i)
	}
	var rows [][]string
	for i, wd := range f.Widths {
		if wd < 0 || wd > 32 {
			res.Invalid("width")
			return
		}
		row := make([]string, wd)
		for j := range row {
			row[j] = fmt.Sprintf("%03d-%d", i, j)
		}
		rows = append(rows, row)
	}
	enc := objects.NewStrListEncoder(true)
	var bb bytes.Buffer
	if _, err := objects.WriteBlockTo(enc, &bb, rows); err != nil {
		res.Invalid("block: %v", err)
		return
	}
	blkSum := meowSum(bb.Bytes())
	tbl := &objects.Table{Columns: cols, RowsCount: uint32(len(rows)), Blocks: [][]byte{blkSum}}
	if f.RowsDecl >= 0 {
		tbl.RowsCount = uint32(f.RowsDecl)
	}
	for _, k := range f.PK {
		if k < 0 {
			res.Invalid("pk")
			return
		}
		tbl.PK = append(tbl.PK, uint32(k))
	}
	idxSum := meowSum([]byte("no such index"))
	if f.GoodIdx {
		if idx, err := objects.IndexBlock(enc, newMeow(), rows, nil); err == nil {
			var ib bytes.Buffer
			idx.WriteTo(&ib)
			idxSum = meowSum(ib.Bytes())
		}
	}
	dst := NewStore("dst", &World{})
	if f.KnownIdx {
		honest := make([][]string, len(rows))
		for i := range honest {
			honest[i] = make([]string, max(f.Cols, 1))
			for j := range honest[i] {
				honest[i][j] = fmt.Sprintf("%03d-%d", i, j)
				if f.OtherIdx {
					honest[i][j] = fmt.Sprintf("%03d+%d", i, j)
				}
			}
		}
		var hpk []uint32
		for _, k := range tbl.PK {
			if int(k) < max(f.Cols, 1) {
				hpk = append(hpk, k)
			}
		}
		idx, err := objects.IndexBlock(enc, newMeow(), honest, hpk)
		if err != nil {
			res.Invalid("honest index: %v", err)
			return
		}
		var ib bytes.Buffer
		idx.WriteTo(&ib)
		sum, _, err := objects.SaveBlockIndex(dst, nil, ib.Bytes())
		if err != nil {
			res.Invalid("save index: %v", err)
			return
		}
		idxSum = sum
		res.probe("forged_table_names_a_block_index_already_held", 1)
	}
	tbl.BlockIndices = [][]byte{idxSum}
	var tb bytes.Buffer
	tbl.WriteTo(&tb)
	tblSum := meowSum(tb.Bytes())
	com := &objects.Commit{Table: tblSum, AuthorName: "a", AuthorEmail: "e", Message: "m", Time: bubbleEpoch}
	var cb bytes.Buffer
	com.WriteTo(&cb)
	comSum := meowSum(cb.Bytes())
	var pf bytes.Buffer
	pw, err := packfile.NewPackfileWriter(&pf)
	if err != nil {
		res.Invalid("%v", err)
		return
	}
	pw.WriteObject(packfile.ObjectBlock, s2.Encode(nil, bb.Bytes()))
	pw.WriteObject(packfile.ObjectTable, tb.Bytes())
	pw.WriteObject(packfile.ObjectCommit, cb.Bytes())
	var rerr error
	if !guarded(res, fmt.Sprintf("ObjectReceiver.Receive of a forged packfile (table of %d columns, key %v, block rows of widths %v, declared rows %d, naming a block index the store already holds: %v)", f.Cols, f.PK, f.Widths, f.RowsDecl, f.KnownIdx), pf.Len(), func() error {
		pr, err := packfile.NewPackfileReader(io.NopCloser(bytes.NewReader(pf.Bytes())))
		if err != nil {
			rerr = err
			return err
		}
		recv := apiutils.NewObjectReceiver(dst, [][]byte{comSum}, logr.Discard())
		_, rerr = recv.Receive(pr, nil)
		return rerr
	}) {
		return
	}
	if c, d := CheckRepoInvariants(dst.Snapshot(), map[string][]byte{}); c != "" {
		res.Violate("rejected-object-left:"+c, "after Receive of the forged packfile returned %v: %s", rerr, d)
		return
	}
	if f.OtherIdx {
		res.fault("forged_table_names_the_index_of_another_block", 1)
		if _, ok := dst.Raw("tbl/" + string(tblSum)); ok {
			if c, d := CheckTable(dst, tblSum); c != "" {
				res.Violate("forged-table-stored:"+c, "Receive (err %v) stored a table whose block index belongs to another block: %s", rerr, d)
				return
			}
		}
	}
	if rerr != nil {
		res.probe("forged_packfile_rejected", 1)
	} else {
		res.probe("forged_packfile_accepted", 1)
	}
}

// execC17ForgedBytes: byte-level forgeries no mutation of a valid stream reaches in practice.
func execC17ForgedBytes(f *Forged, res *Result) {
	dst := NewStore("dst", &World{})
	var pf bytes.Buffer
	pw, err := packfile.NewPackfileWriter(&pf)
	if err != nil {
		res.Invalid("%v", err)
		return
	}
	what := ""
	var wants [][]byte
	switch f.Variant {
	case "commit-time":
		if len(f.TimeField) != 16 {
			res.Invalid("time field must be 16 bytes")
			return
		}
		res.fault("forged_commit_time_field", 1)
		// a table the commit can point at, so that the time field is the only oddity
		tbl := &objects.Table{Columns: []string{"a"}}
		var tb bytes.Buffer
		tbl.WriteTo(&tb)
		com := &objects.Commit{Table: meowSum(tb.Bytes()), AuthorName: "a", AuthorEmail: "e", Message: "m", Time: time.Unix(1700000000, 0).UTC()}
		var cb bytes.Buffer
		com.WriteTo(&cb)
		raw := cb.Bytes()
		i := bytes.Index(raw, []byte("1700000000 +0000"))
		if i < 0 {
			res.Invalid("time field not found in the encoded commit")
			return
		}
		forged := append(append(append([]byte(nil), raw[:i]...), []byte(f.TimeField)...), raw[i+16:]...)
		pw.WriteObject(packfile.ObjectTable, tb.Bytes())
		pw.WriteObject(packfile.ObjectCommit, forged)
		wants = [][]byte{meowSum(forged)}
		what = fmt.Sprintf("a commit whose time field is %q", f.TimeField)
		// the stored-object path as well
		st := NewStore("disk", &World{})
		st.RawSet("com/"+string(meowSum(forged)), forged)
		if !guarded(res, "GetCommit of "+what, len(forged), func() error { _, err := objects.GetCommit(st, meowSum(forged)); return err }) {
			return
		}
	case "long-header":
		if f.HeaderCont < 0 || f.HeaderCont > 5000 || f.HeaderByte < 0x80 || f.HeaderByte > 0xff {
			res.Invalid("header")
			return
		}
		res.fault("forged_overlong_object_header", 1)
		pf.WriteByte(byte(packfile.ObjectCommit<<4) | 0x80 | 0x0f)
		for i := 0; i < f.HeaderCont; i++ {
			pf.WriteByte(byte(f.HeaderByte))
		}
		pf.WriteByte(0x01)
		pf.Write([]byte("x"))
		what = fmt.Sprintf("an object header of %d continuation bytes %#x", f.HeaderCont, f.HeaderByte)
	}
	var rerr error
	if !guarded(res, "ObjectReceiver.Receive of a packfile with "+what, pf.Len(), func() error {
		pr, err := packfile.NewPackfileReader(io.NopCloser(bytes.NewReader(pf.Bytes())))
		if err != nil {
			rerr = err
			return err
		}
		recv := apiutils.NewObjectReceiver(dst, wants, logr.Discard())
		_, rerr = recv.Receive(pr, nil)
		return rerr
	}) {
		return
	}
	if c, d := CheckRepoInvariants(dst.Snapshot(), map[string][]byte{}); c != "" {
		res.Violate("rejected-object-left:"+c, "after Receive of a packfile with %s returned %v: %s", what, rerr, d)
		return
	}
	if rerr != nil {
		res.probe("forged_bytes_rejected", 1)
	} else {
		res.probe("forged_bytes_accepted", 1)
	}
}
