package sim

// C04: row-level diff vs a map-by-key model. The scheduler and fault injector
// add nothing here (pure function of two tables); the simulator contributes
// generator, model, process isolation and minimisation. See DESIGN 7.C04.

import (
	"io"
	"bytes"
	"encoding/json"
	"fmt"
	"sort"
	"testing"

	"github.com/go-logr/logr"
	"github.com/wrgl/wrgl/pkg/diff"
	"github.com/wrgl/wrgl/pkg/objects"
)

type C04Plan struct {
	Table     TableSpec  `json:"table"`
	Synth     *SynthSpec `json:"synth,omitempty"` // alternative large base table
	Edits     []Edit     `json:"edits"`
	TwoStores bool       `json:"two_stores"`
	Swap      bool       `json:"swap"`
	EmptySide string     `json:"empty_side,omitempty"` // "", "first", "second", "both"
	Fault     *Fault     `json:"fault,omitempty"`      // one transient read error during the diff
	DupEdge   string     `json:"dup_edge,omitempty"`   // "", "first", "second", "both": the CSV of that side repeats the lines at its block edges
	NoSum     bool       `json:"no_sum,omitempty"`     // the tables are handed to the differ as decoded from bytes (Table.Sum not set), as ReadTableFrom returns them
	Sample    int        `json:"sample,omitempty"`
	// Workers > 1: both tables are ingested by that many block workers (-n) under the seeded scheduler, so
	// later blocks may be stored before earlier ones; the diff must not depend on who finished first
	Workers   int    `json:"workers,omitempty"`
	SchedSeed uint64 `json:"sched_seed,omitempty"`     // >0: the first table is every Sample-th row of the (large) base, with the edits applied: one of its blocks spans many blocks of the other
}

func genRowEdits(r *Rand, cols []string, pk []string, nrows int, maxEdits int) []Edit {
	pkIdx, _ := pkIndices(cols, pk)
	var es []Edit
	n := r.Range(0, maxEdits)
	style := r.Intn(5) // 0 mixed, 1 front, 2 back, 3 block edges, 4 deletes of a nested range
	cur := nrows
	for i := 0; i < n; i++ {
		pick := func() int {
			if cur <= 0 {
				return 0
			}
			switch style {
			case 1:
				return r.Intn(min(cur, 5))
			case 2:
				return cur - 1 - r.Intn(min(cur, 5))
			case 3:
				e := Pick(r, []int{0, 253, 254, 255, 256, 508, 509, 510, 511})
				if e >= cur {
					return cur - 1
				}
				return e
			}
			return r.Intn(cur)
		}
		x := r.Intn(100)
		switch {
		case x < 40 && cur > 0:
			col := r.Intn(len(cols))
			if contains(pkIdx, col) && len(cols) > len(pkIdx) {
				for contains(pkIdx, col) {
					col = r.Intn(len(cols))
				}
			}
			es = append(es, Edit{Op: "setcell", Row: pick(), Col: col, Val: Pick(r, []string{"", "zz", "EDIT", "a", "9", "~300~e"})})
		case x < 65 && cur > 0:
			if style == 4 {
				s := pick()
				for k := 0; k < r.Range(1, 300) && cur > 0 && s < cur; k++ {
					es = append(es, Edit{Op: "delrow", Row: s})
					cur--
				}
			} else {
				es = append(es, Edit{Op: "delrow", Row: pick()})
				cur--
			}
		default:
			cells := make([]string, len(cols))
			for j := range cells {
				cells[j] = Pick(r, []string{"", "a", "new", "n1", "zz", "0"})
				if contains(pkIdx, j) || len(pkIdx) == 0 {
					cells[j] = fmt.Sprintf("%s%d", Pick(r, []string{"", "N", "a", "0", "~"}), r.Intn(5000))
				}
			}
			es = append(es, Edit{Op: "addrow", Cells: cells})
			cur++
		}
	}
	return es
}

func init() {
	Register(&Profile{
		ID: "C04", Prop: "C04",
		Rule: "pairs (t1, t2 = edit script over t1: cell edits, row deletes at front/back/block edges/nested ranges, row adds; identical tables; either side empty; keyless; composite keys; 0-4 blocks) ingested by the real pipeline (1 worker, or 2-14 block workers under the seeded scheduler) into one or two stores; diff event multiset vs map-by-key model, offsets verified through BlockBuffer and raw decode, diff(t,t)=0, argument swap swaps added/removed; non-trivial = >=1 event of each of two kinds or >=2 blocks on a side; distinct by plan hash",
		Gen: func(seed uint64, tier string) any {
			r := NewRand(seed)
			p := C04Plan{TwoStores: r.Chance(0.3), Swap: r.Chance(0.3)}
			var cols, pk []string
			nrows := 0
			if r.Chance(0.35) {
				s := SynthSpec{N: Pick(r, []int{254, 255, 256, 300, 510, 511, 600, 800, 1021}), NCols: r.Range(2, 4), Seed: r.Uint64()}
				if r.Chance(0.4) {
					s.Groups = r.Range(1, 3)
					if r.Chance(0.5) {
						s.Groups, s.PrefixGroups = r.Range(2, 7), true
					}
				}
				p.Synth = &s
				cols, pk, _ = s.Build()
				nrows = s.N
			} else {
				p.Table = GenTable(r.Sub("data"), GenOpts{MaxRows: 40, AllowNoPK: true, UniqueKeys: true, SimpleOnly: r.Chance(0.5)})
				cols, pk, nrows = p.Table.Cols, p.Table.PK, len(p.Table.Rows)
			}
			if !r.Chance(0.1) {
				p.Edits = genRowEdits(r.Sub("edits"), cols, pk, nrows, Pick(r, []int{1, 3, 8, 30}))
			}
			if r.Chance(0.12) {
				p.EmptySide = Pick(r, []string{"first", "second", "both"})
			}
			if r.Chance(0.15) {
				p.Fault = &Fault{Op: "get", Prefix: Pick(r, []string{"blkidx/", "blkidx/", ""}), Nth: r.Range(1, 6)}
			}
			if p.Synth != nil && r.Chance(0.35) {
				p.DupEdge = Pick(r, []string{"first", "second", "both"})
			}
			p.NoSum = r.Chance(0.2)
			if r.Chance(0.4) {
				p.Workers, p.SchedSeed = Pick(r, []int{4, 5, 6, 8, 16}), r.Uint64()
			}
			if r.Chance(0.015) {
				// a small sample against the full table: one block of the sample spans dozens of blocks of the other
				s := SynthSpec{N: r.Range(9000, 14000), NCols: r.Range(2, 3), Seed: r.Uint64()}
				p.Synth, p.Table, p.Sample, p.DupEdge, p.EmptySide, p.Swap = &s, TableSpec{}, r.Range(30, 60), "", "", r.Chance(0.5)
				c2, pk2, _ := s.Build()
				p.Edits = nil
				for k := r.Range(2, 8); k > 0; k-- {
					p.Edits = append(p.Edits, Edit{Op: "setcell", Row: r.Intn(s.N / p.Sample), Col: len(c2) - 1, Val: fmt.Sprintf("S%d", k)})
				}
				_ = pk2
			}
			return p
		},
		Exec: execC04,
	})
}

// ingestPlain ingests rows with 1 worker, no scheduler.
func ingestPlain(t *testing.T, st *Store, cols []string, pk []string, rows [][]string) ([]byte, error) {
	run := RunIngest(t, st, CSVText(cols, rows, ','), pk, IngestCfg{Delim: ",", Workers: 1, Policy: "fifo"})
	if run.Out.PanicVal != nil {
		return nil, fmt.Errorf("panic: %v", run.Out.PanicVal)
	}
	if run.Out.Deadlock {
		return nil, fmt.Errorf("deadlock")
	}
	return run.Sum, run.Err
}

type diffEvent struct {
	Kind           string // added | removed | modified
	PK, Sum, Old   string
	Offset, OldOff uint32
}

// diffNoSum: hand the differ tables without their Sum field (see C04Plan.NoSum)
var diffNoSum bool

func runDiff(db1, db2 objects.Store, sum1, sum2 []byte) (evs []diffEvent, err error) {
	tbl1, err := objects.GetTable(db1, sum1)
	if err != nil {
		return nil, err
	}
	tbl2, err := objects.GetTable(db2, sum2)
	if err != nil {
		return nil, err
	}
	if diffNoSum {
		tbl1.Sum, tbl2.Sum = nil, nil
	}
	idx1, err := objects.GetTableIndex(db1, sum1)
	if err != nil {
		return nil, err
	}
	idx2, err := objects.GetTableIndex(db2, sum2)
	if err != nil {
		return nil, err
	}
	errCh := make(chan error, 10)
	ch, _ := diff.DiffTables(db1, db2, tbl1, tbl2, idx1, idx2, errCh, logr.Discard())
	for d := range ch {
		e := diffEvent{PK: string(d.PK), Sum: string(d.Sum), Old: string(d.OldSum), Offset: d.Offset, OldOff: d.OldOffset}
		switch {
		case d.Sum != nil && d.OldSum != nil:
			e.Kind = "modified"
		case d.Sum != nil:
			e.Kind = "added"
		default:
			e.Kind = "removed"
		}
		evs = append(evs, e)
	}
	close(errCh)
	if e, ok := <-errCh; ok {
		return evs, e
	}
	return evs, nil
}

func execC04(t *testing.T, raw json.RawMessage, res *Result) {
	var p C04Plan
	if err := json.Unmarshal(raw, &p); err != nil {
		res.Invalid("plan: %v", err)
		return
	}
	var cols, pk []string
	var rows [][]string
	if p.Synth != nil {
		if p.Synth.N < 0 || (p.Synth.N > 5000 && !(p.Sample > 0 && p.Synth.N <= 20000)) || p.Synth.NCols > 8 || p.Sample < 0 || p.Sample > 1000 {
			res.Invalid("synth out of range")
			return
		}
		cols, pk, rows = p.Synth.Build()
	} else {
		if err := p.Table.Validate(); err != nil {
			res.Invalid("plan: %v", err)
			return
		}
		cols, rows = p.Table.Materialise()
		pk = p.Table.PK
	}
	if len(p.Edits) > 2000 {
		res.Invalid("too many edits")
		return
	}
	rows = DedupeByKey(cols, pk, rows)
	for _, e := range p.Edits {
		if e.Op != "setcell" && e.Op != "delrow" && e.Op != "addrow" {
			res.Invalid("C04 uses row-level edits only")
			return
		}
	}
	diffNoSum = p.NoSum
	defer func() { diffNoSum = false }()
	base2 := rows
	if p.Sample > 0 {
		// the sample keeps the rows' order of the base; edits then apply to the sample
		base2 = nil
		pkI, _ := pkIndices(cols, pk)
		order := make([]int, len(rows))
		for i := range order {
			order[i] = i
		}
		sort.SliceStable(order, func(a, b int) bool { return lessKey(keyOf(rows[order[a]], pkI), keyOf(rows[order[b]], pkI)) })
		for i := 0; i < len(order); i += p.Sample {
			base2 = append(base2, rows[order[i]])
		}
		res.probe("sample_against_full_table", 1)
	}
	_, _, rows2 := ApplyEdits(cols, pk, base2, p.Edits)
	rows2 = DedupeByKey(cols, pk, rows2)
	rowsA, rowsB := rows2, rows // A = first argument (new), B = second (old)
	switch p.EmptySide {
	case "first":
		rowsA = nil
	case "second":
		rowsB = nil
	case "both":
		rowsA, rowsB = nil, nil
	}
	if p.Swap {
		rowsA, rowsB = rowsB, rowsA
	}
	// the tables are what encoding/csv says the CSV text holds (a lone empty
	// cell in a one-column table is an empty line, i.e. no row)
	rowsA, rowsB = NormaliseCSV(cols, rowsA), NormaliseCSV(cols, rowsB)
	if maxCellLen(rowsA) > 65535 || maxCellLen(rowsB) > 65535 {
		res.Invalid("oversize")
		return
	}
	w := &World{}
	stA := NewStore("A", w)
	stB := stA
	if p.TwoStores {
		stB = NewStore("B", w)
	}
	inA, inB := rowsA, rowsB
	if len(pk) > 0 {
		if p.DupEdge == "first" || p.DupEdge == "both" {
			inA = withEdgeDuplicates(cols, pk, rowsA)
		}
		if p.DupEdge == "second" || p.DupEdge == "both" {
			inB = withEdgeDuplicates(cols, pk, rowsB)
		}
		if len(inA) != len(rowsA) || len(inB) != len(rowsB) {
			res.probe("duplicate_lines_at_block_edges", 1)
		}
	}
	if p.Workers < 0 || p.Workers > 64 {
		res.Invalid("workers")
		return
	}
	ingest := func(st *Store, rows [][]string, seed uint64) ([]byte, error) {
		if p.Workers <= 1 {
			return ingestPlain(t, st, cols, pk, rows)
		}
		run := RunIngest(t, st, CSVText(cols, rows, ','), pk, IngestCfg{Delim: ",", Workers: p.Workers, SchedSeed: seed})
		if run.Out.PanicVal != nil {
			return nil, fmt.Errorf("panic: %v", run.Out.PanicVal)
		}
		if run.Out.Deadlock {
			return nil, fmt.Errorf("deadlock")
		}
		res.probe("ingested_by_several_workers", 1)
		return run.Sum, run.Err
	}
	sumA, err := ingest(stA, inA, p.SchedSeed)
	if err != nil {
		res.Invalid("ingest A: %v", err)
		return
	}
	sumB, err := ingest(stB, inB, p.SchedSeed+1)
	if err != nil {
		res.Invalid("ingest B: %v", err)
		return
	}
	pkIdx, _ := pkIndices(cols, pk)
	hashKey := func(r []string) string {
		if len(pkIdx) == 0 {
			return string(meowSum(encStrList(r)))
		}
		return string(meowSum(encStrList(keyOf(r, pkIdx))))
	}
	type mrow struct {
		row []string
		sum string
	}
	mA, mB := map[string]mrow{}, map[string]mrow{}
	for _, r := range rowsA {
		mA[hashKey(r)] = mrow{r, string(meowSum(encStrList(r)))}
	}
	for _, r := range rowsB {
		mB[hashKey(r)] = mrow{r, string(meowSum(encStrList(r)))}
	}
	want := map[string]string{} // key hash -> kind
	for k, a := range mA {
		if b, ok := mB[k]; !ok {
			want[k] = "added"
		} else if a.sum != b.sum {
			want[k] = "modified"
		}
	}
	for k := range mB {
		if _, ok := mA[k]; !ok {
			want[k] = "removed"
		}
	}
	if p.Fault != nil {
		// a transient read error: the diff must report it, or be right
		f := *p.Fault
		f.Fired, f.seen = 0, 0
		stB.Faults = []*Fault{&f}
		fevs, ferr := runDiff(stA, stB, sumA, sumB)
		stB.Faults = nil
		if f.Fired > 0 {
			res.fault("read_error", 1)
			if ferr == nil {
				got := map[string]string{}
				for _, e := range fevs {
					got[e.PK] = e.Kind
				}
				bad := len(got) != len(want)
				for k, v := range want {
					if got[k] != v {
						bad = true
					}
				}
				if bad {
					res.Violate("read-error-wrong-diff", "a store read failed during the diff, no error was reported and the diff is wrong (%d events, model %d)", len(fevs), len(want))
					return
				}
			}
		}
	}
	evs, err := runDiff(stA, stB, sumA, sumB)
	if err != nil {
		res.Violate("diff-error", "DiffTables: %v", err)
		return
	}
	_, rawA, _ := ReadTableRaw(stA, sumA)
	_, rawB, _ := ReadTableRaw(stB, sumB)
	tblA, _ := objects.GetTable(stA, sumA)
	tblB, _ := objects.GetTable(stB, sumB)
	bb, err := diff.NewBlockBuffer([]objects.Store{stA, stB}, []*objects.Table{tblA, tblB})
	if err != nil {
		res.Invalid("block buffer: %v", err)
		return
	}
	seen := map[string]bool{}
	kinds := map[string]int{}
	for _, e := range evs {
		if seen[e.PK] {
			res.Violate("key-twice", "key hash %x reported twice", e.PK)
			return
		}
		seen[e.PK] = true
		wk, ok := want[e.PK]
		if !ok {
			res.Violate("spurious-event", "%s event for key hash %x, but the row is identical in both tables (or absent from both)", e.Kind, e.PK)
			return
		}
		if wk != e.Kind {
			res.Violate("wrong-kind", "key hash %x reported as %s, model says %s", e.PK, e.Kind, wk)
			return
		}
		kinds[e.Kind]++
		if e.Kind != "removed" {
			if int(e.Offset) >= len(rawA) || hashKey(rawA[e.Offset]) != e.PK || string(meowSum(encStrList(rawA[e.Offset]))) != e.Sum {
				res.Violate("offset-wrong", "%s event: Offset %d does not address the row with that key and hash in the first table (%d rows)", e.Kind, e.Offset, len(rawA))
				return
			}
			blk, off := diff.RowToBlockAndOffset(e.Offset)
			r, err := bb.GetRow(0, blk, off)
			if err != nil || !rowsEqual(r, rawA[e.Offset]) {
				res.Violate("offset-wrong", "BlockBuffer.GetRow(0,%d,%d) = %v err=%v, want %s", blk, off, clip(r), err, clip(rawA[e.Offset]))
				return
			}
			if e.Sum != mA[e.PK].sum {
				res.Violate("sum-wrong", "event Sum differs from the row hash in the first table")
				return
			}
		}
		if e.Kind != "added" {
			if int(e.OldOff) >= len(rawB) || hashKey(rawB[e.OldOff]) != e.PK || string(meowSum(encStrList(rawB[e.OldOff]))) != e.Old {
				res.Violate("offset-wrong", "%s event: OldOffset %d does not address the row with that key and hash in the second table (%d rows)", e.Kind, e.OldOff, len(rawB))
				return
			}
			blk, off := diff.RowToBlockAndOffset(e.OldOff)
			r, err := bb.GetRow(1, blk, off)
			if err != nil || !rowsEqual(r, rawB[e.OldOff]) {
				res.Violate("offset-wrong", "BlockBuffer.GetRow(1,%d,%d) = %v err=%v", blk, off, clip(r), err)
				return
			}
		}
	}
	// the modified rows read back through diff.RowChangeReader (what `wrgl diff` pages through): per
	// column one value when both sides agree, [new, old] when they differ
	{
		cd := diff.CompareColumns([2][]string{tblB.Columns, tblB.PrimaryKey()}, [2][]string{tblA.Columns, tblA.PrimaryKey()})
		rc, err := diff.NewRowChangeReader(stA, stB, tblA, tblB, cd)
		if err != nil {
			res.Violate("change-reader-error", "NewRowChangeReader: %v", err)
			return
		}
		var mods []diffEvent
		for _, e := range evs {
			if e.Kind == "modified" {
				mods = append(mods, e)
				rc.AddRowDiff(&objects.Diff{PK: []byte(e.PK), Sum: []byte(e.Sum), OldSum: []byte(e.Old), Offset: e.Offset, OldOffset: e.OldOff})
			}
		}
		colA, colB := map[string]int{}, map[string]int{}
		for i, c := range tblA.Columns {
			colA[c] = i
		}
		for i, c := range tblB.Columns {
			colB[c] = i
		}
		if rc.Len() != len(mods) {
			res.Violate("change-reader-wrong", "RowChangeReader.Len() = %d after %d AddRowDiff", rc.Len(), len(mods))
			return
		}
		for i, e := range mods {
			var got [][]string
			if i%2 == 0 {
				got, err = rc.Read()
			} else {
				got, err = rc.ReadAt(i)
				rc.Seek(i+1, io.SeekStart)
			}
			if err != nil || len(got) != len(rc.ColDiff.Names) {
				res.Violate("change-reader-wrong", "RowChangeReader row %d of %d: %d columns, err %v (want %d columns)", i, len(mods), len(got), err, len(rc.ColDiff.Names))
				return
			}
			ra, rb := rawA[e.Offset], rawB[e.OldOff]
			for j, name := range rc.ColDiff.Names {
				ia, okA := colA[name]
				ib, okB := colB[name]
				if !okA || !okB {
					res.Invalid("C04 tables have the same columns")
					return
				}
				wantCell := []string{ra[ia]}
				if ra[ia] != rb[ib] {
					wantCell = []string{ra[ia], rb[ib]}
				}
				if !rowsEqual(got[j], wantCell) {
					res.Violate("change-reader-wrong", "RowChangeReader row %d column %q = %s, the two rows hold %s (new row %s, old row %s)", i, name, clip(got[j]), clip(wantCell), clip(ra), clip(rb))
					return
				}
			}
		}
		if got, err := rc.Read(); err != io.EOF {
			res.Violate("change-reader-wrong", "RowChangeReader.Read past the last of %d changes: %v, err %v (want io.EOF)", len(mods), got, err)
			return
		}
		if len(mods) > 0 {
			res.probe("row_change_reader", 1)
		}
	}
	for k, wk := range want {
		if !seen[k] {
			var row []string
			if m, ok := mA[k]; ok {
				row = m.row
			} else {
				row = mB[k].row
			}
			res.Violate("missing-event", "no %s event for row %s (first table %d rows, second %d rows)", wk, clip(row), len(rowsA), len(rowsB))
			return
		}
	}
	// diff(t,t) = nothing
	self, err := runDiff(stA, stA, sumA, sumA)
	if err != nil || len(self) != 0 {
		res.Violate("self-diff", "diff of a table against itself: %d events, err=%v", len(self), err)
		return
	}
	// swapping the arguments swaps added and removed
	sw, err := runDiff(stB, stA, sumB, sumA)
	if err != nil {
		res.Violate("diff-error", "swapped DiffTables: %v", err)
		return
	}
	ks := map[string]int{}
	for _, e := range sw {
		ks[e.Kind]++
		wk := want[e.PK]
		if (wk == "added" && e.Kind != "removed") || (wk == "removed" && e.Kind != "added") || (wk == "modified" && e.Kind != "modified") || wk == "" {
			res.Violate("swap-asymmetry", "swapped diff reports %s for key hash %x, forward model says %q", e.Kind, e.PK, wk)
			return
		}
	}
	if len(sw) != len(evs) || ks["added"] != kinds["removed"] || ks["removed"] != kinds["added"] {
		res.Violate("swap-asymmetry", "forward %v, swapped %v", kinds, ks)
		return
	}
	_ = bytes.Equal
	res.stat("sim_steps", float64(w.Steps))
	nk := 0
	for _, n := range kinds {
		if n > 0 {
			nk++
		}
	}
	if len(rowsA) == 0 || len(rowsB) == 0 {
		res.probe("empty_side", 1)
	}
	if len(pkIdx) == 0 {
		res.probe("keyless", 1)
	}
	if len(rowsA) > 255 || len(rowsB) > 255 {
		res.probe("multi_block", 1)
	}
	res.Nontrivial = nk >= 2 || len(rowsA) > 255 || len(rowsB) > 255
}
