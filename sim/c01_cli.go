package sim

// C01 (CLI path): `wrgl commit` then `wrgl export` in-process through hook H1.

import (
	"encoding/json"
	"fmt"
	"strings"
	"testing"
)

type C01CLIPlan struct {
	Table TableSpec `json:"table"`
	Cfg   IngestCfg `json:"cfg"`
	// RealBadger: the commands open the real Badger object store in the node's directory
	// instead of the simulated store (cross-check of the store stub; no raw-object checks)
	RealBadger bool `json:"real_badger,omitempty"`
}

func init() {
	Register(&Profile{
		ID: "C01cli", Prop: "C01",
		Rule: "same generator as C01, driven through the in-process CLI (`wrgl commit -n N --mem-limit M --delimiter D` then `wrgl export`), export parsed back and compared with the model and with the raw block read; non-trivial as C01",
		Gen: func(seed uint64, tier string) any {
			r := NewRand(seed)
			o := GenOpts{MaxRows: 300, AllowNoPK: true, BigCells: r.Chance(0.2), HugeRow: r.Chance(0.05), OverLimit: r.Chance(0.05)}
			return C01CLIPlan{Table: GenTable(r.Sub("data"), o), Cfg: genIngestCfg(r.Sub("knobs")), RealBadger: r.Chance(0.25)}
		},
		Exec: execC01CLI,
	})
}

func execC01CLI(t *testing.T, raw json.RawMessage, res *Result) {
	var p C01CLIPlan
	if err := json.Unmarshal(raw, &p); err != nil {
		res.Invalid("plan: %v", err)
		return
	}
	if err := p.Table.Validate(); err != nil {
		res.Invalid("plan: %v", err)
		return
	}
	delim, err := delimRune(p.Cfg.Delim)
	if err != nil || p.Cfg.Workers < 0 || p.Cfg.Workers > 64 {
		res.Invalid("cfg")
		return
	}
	cols, rows := p.Table.Materialise()
	for _, c := range append(append([]string{}, cols...), p.Table.PK...) {
		if strings.ContainsAny(c, ",\"\n") {
			res.Skip("column names with CSV metacharacters cannot be passed through --primary-key (StringSlice flag)")
			return
		}
	}
	text := CSVText(cols, rows, delim)
	pcols, prows, err := ParseCSV(text, delim)
	if err != nil {
		res.Invalid("csv: %v", err)
		return
	}
	pkNames := make([]string, len(p.Table.PK))
	for i, s := range p.Table.PK {
		pkNames[i] = ToBytes(s)
	}
	pk, err := pkIndices(pcols, pkNames)
	if err != nil {
		res.Invalid("%v", err)
		return
	}
	exp := IngestModel(pcols, prows, pk)
	over := maxCellLen(prows) > 65535 || maxCellLen([][]string{pcols}) > 65535
	w := &World{}
	n, err := NewNode(t, "L", w)
	if err != nil {
		res.Invalid("node: %v", err)
		return
	}
	defer n.Close()
	n.Objs.Monitor = MonitorC06
	n.RealBadger = p.RealBadger
	file := n.WriteFile("data.csv", text)
	args := []string{"commit", "main", file, "msg", "-n", fmt.Sprint(p.Cfg.Workers)}
	if len(pkNames) > 0 {
		args = append(args, "-p", strings.Join(pkNames, ","))
	}
	if p.Cfg.RunSize > 0 {
		args = append(args, "--mem-limit", fmt.Sprint(p.Cfg.RunSize))
	}
	if p.Cfg.Delim != "" && p.Cfg.Delim != "," {
		args = append(args, "--delimiter", p.Cfg.Delim)
	}
	cr := n.Run(t, args...)
	res.stat("sim_time_s", cr.Out.SimTime.Seconds())
	if bubbleProblems(res, cr.Out, "wrgl commit") {
		return
	}
	if me := n.Objs.TakeMonErrs(); len(me) > 0 {
		res.Violate("c06-monitor", "%s", me[0])
		return
	}
	refs, _ := n.Refs()
	if over {
		res.probe("oversize_cell", 1)
		if cr.Err == nil {
			res.Violate("oversize-accepted", "commit of a %d-byte cell succeeded: %s", maxCellLen(prows), cr.Stdout)
			return
		}
		if _, ok := refs["heads/main"]; ok {
			res.Violate("oversize-ref-moved", "commit failed (%v) but heads/main exists", cr.Err)
		}
		res.Nontrivial = true
		return
	}
	if cr.Err != nil {
		res.Violate("commit-error", "wrgl commit of a well-formed CSV failed: %v\n%s", cr.Err, cr.Stdout)
		return
	}
	head, ok := refs["heads/main"]
	if !ok {
		res.Violate("ref-missing", "commit succeeded but heads/main does not exist")
		return
	}
	if !p.RealBadger {
		if _, ok := n.Objs.Raw("com/" + string(head)); !ok {
			res.Violate("commit-missing", "heads/main points at a missing commit")
			return
		}
	} else {
		res.probe("real_badger_store", 1)
	}
	er := n.Run(t, append([]string{"export", "main"}, func() []string {
		if p.Cfg.Delim != "" && p.Cfg.Delim != "," {
			return []string{"--delimiter", p.Cfg.Delim}
		}
		return nil
	}()...)...)
	if bubbleProblems(res, er.Out, "wrgl export") {
		return
	}
	if er.Err != nil {
		res.Violate("export-error", "wrgl export failed: %v", er.Err)
		return
	}
	ecols, erows, err := ParseCSV([]byte(er.Stdout), delim)
	if err != nil {
		res.Violate("export-unparsable", "export output is not well-formed CSV: %v", err)
		return
	}
	tpk := make([]uint32, len(pk))
	for i, u := range pk {
		tpk[i] = uint32(u)
	}
	// a single-column table with an empty cell exports as an empty line, which
	// encoding/csv skips on re-read: compare modulo that representational gap
	if len(pcols) == 1 {
		var kept [][]string
		for _, r := range erows {
			kept = append(kept, r)
		}
		erows = kept
		exp2 := IngestModel(pcols, filterNonEmptySingle(prows), pk)
		if c, d := exp2.Compare(ecols, tpk, filterNonEmptySingle(erows)); c != "" {
			res.Violate("export-"+c, "%s", d)
			return
		}
	} else if c, d := exp.Compare(ecols, tpk, erows); c != "" {
		res.Violate("export-"+c, "%s", d)
		return
	}
	res.Nontrivial = len(prows) >= 2 && (!exp.Unique || len(prows) > 255 || p.Cfg.RunSize > 0)
}

func filterNonEmptySingle(rows [][]string) [][]string {
	var out [][]string
	for _, r := range rows {
		if len(r) == 1 && r[0] == "" {
			continue
		}
		out = append(out, r)
	}
	return out
}
