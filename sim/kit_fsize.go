package sim

// File-size limit as a disk fault: while f runs, every file the process writes to
// (the sorter's spill files; nothing else is written inside the window) may grow to
// at most limit bytes; writes beyond that fail with EFBIG after a short write, which
// is what a full disk or a quota looks like to the writer. Process-wide (RLIMIT_FSIZE),
// so only used by profiles that run one case at a time and write no files of their own
// while the window is open. SIGXFSZ is ignored in TestMain.

import "syscall"

func withFsizeLimit(limit uint64, f func()) (armed bool) {
	var old syscall.Rlimit
	if err := syscall.Getrlimit(syscall.RLIMIT_FSIZE, &old); err != nil {
		f()
		return false
	}
	lim := old
	lim.Cur = limit
	if lim.Cur > old.Max {
		lim.Cur = old.Max
	}
	if err := syscall.Setrlimit(syscall.RLIMIT_FSIZE, &lim); err != nil {
		f()
		return false
	}
	defer syscall.Setrlimit(syscall.RLIMIT_FSIZE, &old)
	f()
	return true
}
