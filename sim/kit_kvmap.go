package sim

// kvmap: a string->[]byte map written without runtime maps, fmt or sort,
// because those record race-detector events even when called from
// //go:norace code; every method here is //go:norace and touches only memory
// owned by the harness.

type kvEnt struct {
	k string
	v []byte
}

type kvmap struct {
	b [512][]kvEnt
	n int
}

func newKVMap() *kvmap { return &kvmap{} }

//go:norace
func kvHash(k string) uint32 {
	h := uint32(2166136261)
	for i := 0; i < len(k); i++ {
		h ^= uint32(k[i])
		h *= 16777619
	}
	return h
}

//go:norace
func (m *kvmap) get(k string) ([]byte, bool) {
	b := m.b[kvHash(k)%512]
	for i := range b {
		if b[i].k == k {
			return b[i].v, true
		}
	}
	return nil, false
}

//go:norace
func (m *kvmap) set(k string, v []byte) {
	h := kvHash(k) % 512
	b := m.b[h]
	for i := range b {
		if b[i].k == k {
			b[i].v = v
			return
		}
	}
	m.b[h] = append(b, kvEnt{k, v})
	m.n++
}

//go:norace
func (m *kvmap) del(k string) {
	h := kvHash(k) % 512
	b := m.b[h]
	for i := range b {
		if b[i].k == k {
			b[i] = b[len(b)-1]
			b[len(b)-1] = kvEnt{}
			m.b[h] = b[:len(b)-1]
			m.n--
			return
		}
	}
}

//go:norace
func hasPrefix(s, p string) bool { return len(s) >= len(p) && s[:len(p)] == p }

// scan returns the entries whose key starts with prefix, sorted by key.
//
//go:norace
func (m *kvmap) scan(prefix string) (ks []string, vs [][]byte) {
	for h := range m.b {
		for _, e := range m.b[h] {
			if hasPrefix(e.k, prefix) {
				ks = append(ks, e.k)
				vs = append(vs, e.v)
			}
		}
	}
	// heap sort on (ks, vs) without closures or package sort
	n := len(ks)
	for start := n/2 - 1; start >= 0; start-- {
		kvSift(ks, vs, start, n)
	}
	for end := n - 1; end > 0; end-- {
		ks[0], ks[end] = ks[end], ks[0]
		vs[0], vs[end] = vs[end], vs[0]
		kvSift(ks, vs, 0, end)
	}
	return
}

//go:norace
func kvSift(ks []string, vs [][]byte, lo, hi int) {
	root := lo
	for {
		child := 2*root + 1
		if child >= hi {
			return
		}
		if child+1 < hi && ks[child] < ks[child+1] {
			child++
		}
		if !(ks[root] < ks[child]) {
			return
		}
		ks[root], ks[child] = ks[child], ks[root]
		vs[root], vs[child] = vs[child], vs[root]
		root = child
	}
}

//go:norace
func opCode(op string) int {
	switch op {
	case "get":
		return 0
	case "set":
		return 1
	case "del":
		return 2
	case "exist":
		return 3
	case "filter":
		return 4
	case "filterkey":
		return 5
	case "clear":
		return 6
	}
	return 7
}
