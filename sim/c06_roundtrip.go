package sim

// C06 (own profile): field extremes driven through real entry points; the
// write monitor (MonitorC06) is active in every other profile as well.

import (
	"bytes"
	"encoding/json"
	"fmt"
	"math"
	"strconv"
	"strings"
	"testing"
	"time"

	"github.com/wrgl/wrgl/pkg/encoding/packfile"
	"github.com/wrgl/wrgl/pkg/misc"
	"github.com/wrgl/wrgl/pkg/objects"
)

type C06Plan struct {
	Kind       string `json:"kind"` // commit | header
	MessageLen int    `json:"message_len"`
	NameLen    int    `json:"name_len"`
	EmailLen   int    `json:"email_len"`
	ClockHours int64  `json:"clock_hours"` // node clock offset from 2000-01-01
	ZoneMin    int    `json:"zone_min"`    // local zone offset in minutes
	Rows       int    `json:"rows"`
	CellLen    int    `json:"cell_len"` // length of the big cell in every row
	Cols       int    `json:"cols"`
	Lens       []uint64 `json:"lens"` // header kind: object lengths to round-trip
	Times      []int64  `json:"times"` // header kind: Unix seconds of commits encoded at library level
	Zones      []int    `json:"zones"` // header kind: zone offsets in seconds
	// table kind: library-level table objects with many blocks
	NBlocks  int      `json:"n_blocks,omitempty"`
	LastRows int      `json:"last_rows,omitempty"`
	TCols    []string `json:"t_cols,omitempty"`
	TPK      []uint32 `json:"t_pk,omitempty"`
	NoIndex  bool     `json:"no_index,omitempty"` // table written without block indices (older writers)
	// profile kind: table profiles with every float statistic drawn from a list of awkward values
	ProfCols [][]string `json:"prof_cols,omitempty"` // per column: min, max, mean, median, stdDeviation as text ("" = absent, "NaN", "+Inf", "-0", ...)
}

func init() {
	Register(&Profile{
		ID: "C06", Prop: "C06",
		Rule: "field extremes through `wrgl commit` (message / author name / email of 0, 1, 65535, 65536, 70000 bytes; node clock up to year 2292, before 1970, zone offsets -12h..+14h incl. half hours; rows whose encoding crosses 64 KiB; blocks of 1..255 rows) and the packfile length header over varint boundaries, 32-bit and sampled 64-bit lengths; oracle: error at write time with the branch untouched, or the commit reads back equal; block indices computed from stored block bytes vs from decoded rows for every order of 0-4 key columns (identical bytes, every row found under its key hash); the C06 write monitor checks key = hash, decode and re-encode on every stored object; non-trivial = a field at or over a limit or a clock/zone extreme; distinct by plan hash",
		Gen: func(seed uint64, tier string) any {
			r := NewRand(seed)
			if r.Chance(0.1) {
				return genC06BlockIndex(r.Sub("blockindex"))
			}
			if r.Chance(0.08) {
				// what the profiler computes for columns holding "NaN" / "inf" / huge cells
				vals := []string{"", "0", "-0", "1", "-1.5", "NaN", "+Inf", "-Inf", "1e308", "5e-324", "1.7976931348623157e308", "123456789.123456789"}
				p := C06Plan{Kind: "profile"}
				for c := r.Range(1, 4); c > 0; c-- {
					col := make([]string, 5)
					for i := range col {
						col[i] = Pick(r, vals)
					}
					p.ProfCols = append(p.ProfCols, col)
				}
				return p
			}
			if r.Chance(0.15) {
				p := C06Plan{Kind: "table", NBlocks: Pick(r, []int{0, 1, 2, 3, 255, 256, 1023, 1024, 1025, 1026, 2047, 2048, 2049, 3000, 5000}), LastRows: Pick(r, []int{1, 2, 254, 255})}
				if r.Chance(0.3) {
					p.NBlocks = r.Range(0, 4200)
				}
				p.TCols = genColumns(r, 6)
				for _, j := range r.Perm(len(p.TCols))[:r.Intn(min(3, len(p.TCols))+1)] {
					p.TPK = append(p.TPK, uint32(j))
				}
				return p
			}
			if r.Chance(0.25) {
				p := C06Plan{Kind: "header"}
				for i := 0; i < 40; i++ {
					b := Pick(r, []uint{0, 3, 4, 10, 11, 17, 18, 24, 25, 31, 32, 38, 39, 52, 53, 60, 63})
					var v uint64
					if b > 0 {
						v = (uint64(1) << b) + uint64(r.Intn(5)) - 2
					}
					if r.Chance(0.3) {
						v = r.Uint64() >> uint(r.Intn(64))
					}
					p.Lens = append(p.Lens, v)
				}
				for i := 0; i < 12; i++ {
					p.Times = append(p.Times, Pick(r, []int64{0, 1, -1, -62135596800, 9999999999, 10000000000, 10413792000, 253402300799, -999999999, -1000000000, int64(r.Intn(2000000000))}))
					p.Zones = append(p.Zones, Pick(r, []int{0, 3600, -3600, 19800, 20700, -43200, 50400, 86399, -86399, 5*3600 + 53*60 + 28, -12600, -34200, -9000, -60, -1800, -2700, -3599}))
				}
				return p
			}
			lens := []int{0, 1, 20, 255, 65534, 65535, 65536, 70000}
			p := C06Plan{Kind: "commit", MessageLen: Pick(r, lens), NameLen: Pick(r, []int{1, 20, 65535, 65536}), EmailLen: Pick(r, []int{1, 20, 65535, 65536})}
			if r.Chance(0.6) {
				p.NameLen, p.EmailLen = 5, 8
			}
			// the synctest clock saturates at 2262-04-11 (int64 nanoseconds since 1970)
			p.ClockHours = Pick(r, []int64{1, 24 * 365 * 10, 24 * 365 * 100, 2290000})
			if r.Chance(0.5) {
				p.ClockHours = int64(r.Intn(24 * 365 * 50))
			}
			p.ZoneMin = Pick(r, []int{0, 0, 60, -60, 330, 345, -720, 840, 7*60 + 1, -210, -570, -150, -45, -30, -1})
			p.Rows = Pick(r, []int{1, 2, 254, 255, 256})
			p.Cols = r.Range(1, 3)
			p.CellLen = Pick(r, []int{0, 1, 100, 30000, 65535})
			if p.Rows > 3 && p.CellLen > 1000 {
				p.CellLen = 100
			}
			return p
		},
		Exec: execC06,
	})
}

func execC06(t *testing.T, raw json.RawMessage, res *Result) {
	var p C06Plan
	if err := json.Unmarshal(raw, &p); err != nil {
		res.Invalid("plan: %v", err)
		return
	}
	if p.Kind == "table" {
		execC06Table(&p, res)
		return
	}
	if p.Kind == "profile" {
		execC06Profile(&p, res)
		return
	}
	if p.Kind == "blockindex" {
		execC06BlockIndex(&p, res)
		return
	}
	if p.Kind == "header" {
		if len(p.Lens) > 1000 {
			res.Invalid("lens")
			return
		}
		for _, l := range p.Lens {
			for _, typ := range []int{packfile.ObjectCommit, packfile.ObjectTable, packfile.ObjectBlock} {
				var hdr []byte
				pv := func() (pv any) {
					defer func() { pv = recover() }()
					hdr = packfile.EncodeObjTypeAndLenForVerif(misc.NewBuffer(nil), typ, l)
					return nil
				}()
				if pv != nil {
					res.Violate("header-panic", "encoding packfile header for type %d length %d panicked: %v", typ, l, pv)
					return
				}
				gt, gl, err := packfile.DecodeObjTypeAndLenForVerif(bytes.NewReader(hdr))
				if err != nil || gt != typ || gl != l {
					res.Violate("header-roundtrip", "packfile header (type %d, length %d) encodes to %x and decodes to (type %d, length %d, err %v)", typ, l, hdr, gt, gl, err)
					return
				}
			}
		}
		for i, sec := range p.Times {
			zone := 0
			if i < len(p.Zones) {
				zone = p.Zones[i]
			}
			if zone < -86400 || zone > 86400 {
				res.Invalid("zone")
				return
			}
			c := &objects.Commit{Table: meowSum([]byte("t")), AuthorName: "a", AuthorEmail: "e", Message: "m", Time: time.Unix(sec, 0).In(time.FixedZone("z", zone))}
			var b bytes.Buffer
			if _, err := c.WriteTo(&b); err != nil {
				res.probe("time_refused_at_write", 1)
				continue
			}
			_, c2, err := objects.ReadCommitFrom(bytes.NewReader(b.Bytes()))
			if err != nil {
				res.Violate("time-unreadable", "a commit at Unix time %d zone %+d s was written without error but does not decode: %v", sec, zone, err)
				return
			}
			if c2.Time.Unix() != sec {
				res.Violate("time-altered", "commit time %d reads back as %d", sec, c2.Time.Unix())
				return
			}
			var b2 bytes.Buffer
			if _, err := c2.WriteTo(&b2); err != nil || !bytes.Equal(b2.Bytes(), b.Bytes()) {
				res.Violate("reencode-differs", "re-encoding the commit read back (time %d zone %+d s) differs from the written bytes (err=%v)", sec, zone, err)
				return
			}
		}
		res.stat("sim_steps", float64(len(p.Lens)*3+len(p.Times)))
		res.Nontrivial = true
		return
	}
	if p.Kind != "commit" || p.MessageLen < 0 || p.MessageLen > 200000 || p.NameLen < 1 || p.NameLen > 200000 || p.EmailLen < 1 || p.EmailLen > 200000 ||
		p.Rows < 1 || p.Rows > 600 || p.Cols < 1 || p.Cols > 6 || p.CellLen < 0 || p.CellLen > 65535 || p.ClockHours < 0 || p.ClockHours > 2295000 || p.ZoneMin < -1000 || p.ZoneMin > 1000 {
		res.Invalid("plan out of range")
		return
	}
	prevLocal := time.Local
	time.Local = time.FixedZone("sim", p.ZoneMin*60)
	defer func() { time.Local = prevLocal }()
	w := &World{}
	n, err := NewNode(t, "L", w)
	if err != nil {
		res.Invalid("node: %v", err)
		return
	}
	defer n.Close()
	n.Objs.Monitor = MonitorC06
	name := strings.Repeat("n", p.NameLen)
	email := strings.Repeat("e", p.EmailLen)
	for _, kv := range [][2]string{{"user.name", name}, {"user.email", email}} {
		if r := n.Run(t, "config", "set", kv[0], kv[1]); r.Failed() {
			res.Skip("config set %s (%d bytes) refused: %v", kv[0], len(kv[1]), r.Err)
			return
		}
	}
	cols := []string{"id"}
	for j := 1; j < p.Cols; j++ {
		cols = append(cols, fmt.Sprintf("c%d", j))
	}
	var rows [][]string
	for i := 0; i < p.Rows; i++ {
		row := []string{fmt.Sprintf("%05d", i)}
		for j := 1; j < p.Cols; j++ {
			row = append(row, strings.Repeat("v", p.CellLen))
		}
		rows = append(rows, row)
	}
	file := n.WriteFile("d.csv", CSVText(cols, rows, ','))
	// a first ordinary commit so that "branch untouched" is observable
	n.Clock = time.Hour
	if r := n.Run(t, "commit", "main", file, "first", "-p", "id"); r.Failed() {
		if p.NameLen > 65535 || p.EmailLen > 65535 {
			res.probe("oversize_author_refused", 1)
			res.Nontrivial = true
			refs, _ := n.Refs()
			if _, ok := refs["heads/main"]; ok {
				res.Violate("failed-commit-moved-branch", "commit with an oversize author failed (%v) but heads/main exists", r.Err)
			}
			return
		}
		res.Violate("commit-error", "ordinary commit failed: %v %s", r.Err, r.Stdout)
		return
	}
	if me := n.Objs.TakeMonErrs(); len(me) > 0 {
		res.Violate("c06-monitor", "%s", me[0])
		return
	}
	refs1, _ := n.Refs()
	// second commit with the extreme message at the extreme clock
	rows = append(rows, append([]string{"zzzzz"}, rows[0][1:]...))
	file2 := n.WriteFile("d2.csv", CSVText(cols, rows, ','))
	msg := strings.Repeat("m", p.MessageLen)
	n.Clock = time.Duration(p.ClockHours) * time.Hour
	if n.Clock < 0 {
		n.Clock = 0
	}
	cr := n.Run(t, "commit", "main", file2, msg, "-p", "id")
	if bubbleProblems(res, cr.Out, "wrgl commit") {
		return
	}
	mon := n.Objs.TakeMonErrs()
	refs2, _ := n.Refs()
	over := p.MessageLen > 65535 || p.NameLen > 65535 || p.EmailLen > 65535
	extreme := over || p.MessageLen == 65535 || p.ClockHours > 24*365*280 || p.ZoneMin%60 != 0 || p.ZoneMin > 720 || p.ZoneMin < -660
	if cr.Err != nil {
		if !bytes.Equal(refs1["heads/main"], refs2["heads/main"]) {
			res.Violate("failed-commit-moved-branch", "commit failed (%v) but heads/main moved", cr.Err)
			return
		}
		if !over {
			res.Violate("commit-error", "commit with message %d / name %d / email %d bytes at clock +%dh failed: %v", p.MessageLen, p.NameLen, p.EmailLen, p.ClockHours, cr.Err)
			return
		}
		res.probe("refused_at_write_time", 1)
		res.Nontrivial = true
		return
	}
	// success: the branch must point at a commit that reads back equal
	head := refs2["heads/main"]
	com, err := objects.GetCommit(n.Objs, head)
	if err != nil {
		res.Violate("stored-unreadable", "commit succeeded but heads/main -> %x does not decode: %v (message %d bytes, clock +%dh, zone %+d min)", head, err, p.MessageLen, p.ClockHours, p.ZoneMin)
		return
	}
	if len(mon) > 0 {
		res.Violate("c06-monitor", "%s", mon[0])
		return
	}
	if over {
		res.Violate("oversize-accepted", "a %d/%d/%d-byte message/name/email was accepted", p.MessageLen, p.NameLen, p.EmailLen)
		return
	}
	if com.Message != msg || com.AuthorName != name || com.AuthorEmail != email {
		res.Violate("field-altered", "commit reads back with message %d bytes (want %d), name %d (want %d), email %d (want %d)", len(com.Message), len(msg), len(com.AuthorName), len(name), len(com.AuthorEmail), len(email))
		return
	}
	wantT := bubbleEpoch.Add(n.Clock)
	if d := com.Time.Sub(wantT); d < -time.Minute || d > time.Minute {
		res.Violate("time-altered", "commit time reads back as %s, the node clock was %s", com.Time.UTC().Format(time.RFC3339), wantT.Format(time.RFC3339))
		return
	}
	if _, off := com.Time.Zone(); off != p.ZoneMin*60 {
		res.Violate("zone-altered", "commit zone offset reads back as %d s, local zone was %d s", off, p.ZoneMin*60)
		return
	}
	if c, d := CheckTable(n.Objs, com.Table); c != "" {
		res.Violate("c03-"+c, "%s", d)
		return
	}
	// what is written is what is read back, also when the key already holds damaged bytes:
	// damage the derived objects of the first table, commit the same file to another branch
	if c1 := rawCommit(n.Objs, refs1["heads/main"]); c1 != nil {
		n.Objs.RawSet("tblsum/"+string(c1.Table), []byte("garbage"))
		n.Objs.RawSet("tblidx/"+string(c1.Table), []byte{0, 0, 0, 2})
		n.Clock += time.Hour
		if r3 := n.Run(t, "commit", "again", file, "same data again", "-p", "id"); r3.Failed() {
			res.Violate("commit-error", "re-committing the first file failed: %v %v", r3.Err, r3.Out.PanicVal)
			return
		}
		n.Objs.TakeMonErrs()
		if _, err := objects.GetTableProfile(n.Objs, c1.Table); err != nil {
			res.Violate("stale-object-kept", "the table profile written by the commit does not read back (a damaged value under the same key was kept): %v", err)
			return
		}
		if c, d := CheckTable(n.Objs, c1.Table); c != "" {
			res.Violate("stale-object-kept", "after re-committing, table %x: %s %s", c1.Table, c, d)
			return
		}
	}
	lr := n.Run(t, "log", "main")
	if lr.Failed() {
		res.Violate("log-error", "`wrgl log main` failed after the commit: %v %v", lr.Err, lr.Out.PanicVal)
		return
	}
	res.stat("sim_steps", float64(w.Steps))
	res.stat("sim_time_s", float64(p.ClockHours)*3600)
	res.Nontrivial = extreme || p.CellLen >= 30000
}


// execC06Table round-trips a table object of NBlocks blocks through
// Table.WriteTo / SaveTable / GetTable / ReadTableFrom.
func execC06Table(p *C06Plan, res *Result) {
	if p.NBlocks < 0 || p.NBlocks > 20000 || p.LastRows < 1 || p.LastRows > 255 || len(p.TCols) > 20 {
		res.Invalid("plan out of range")
		return
	}
	for _, k := range p.TPK {
		if int(k) >= len(p.TCols) {
			res.Invalid("pk out of range")
			return
		}
	}
	cols := make([]string, len(p.TCols))
	for i, c := range p.TCols {
		cols[i] = ToBytes(c)
	}
	tbl := objects.NewTable(cols, p.TPK)
	if p.NBlocks > 0 {
		tbl.RowsCount = uint32((p.NBlocks-1)*255 + p.LastRows)
	}
	for i := 0; i < p.NBlocks; i++ {
		tbl.Blocks = append(tbl.Blocks, meowSum([]byte(fmt.Sprintf("blk-%d", i))))
		if !p.NoIndex {
			tbl.BlockIndices = append(tbl.BlockIndices, meowSum([]byte(fmt.Sprintf("idx-%d", i))))
		}
	}
	var b bytes.Buffer
	if _, err := tbl.WriteTo(&b); err != nil {
		res.Violate("table-write-error", "writing a table of %d blocks failed: %v", p.NBlocks, err)
		return
	}
	st := NewStore("T", &World{})
	st.Monitor = MonitorC06
	sum, err := objects.SaveTable(st, b.Bytes())
	if err != nil {
		res.Invalid("save: %v", err)
		return
	}
	if me := st.TakeMonErrs(); len(me) > 0 {
		res.Violate("c06-monitor", "%s", me[0])
		return
	}
	got, err := objects.GetTable(st, sum)
	if err != nil {
		res.Violate("table-unreadable", "a table of %d blocks (%d rows) was written without error but does not read back: %v", p.NBlocks, tbl.RowsCount, err)
		return
	}
	if !rowsEqual(got.Columns, cols) || got.RowsCount != tbl.RowsCount || len(got.PK) != len(p.TPK) {
		res.Violate("table-meta-differs", "table meta reads back as cols=%q pk=%v rows=%d, written cols=%q pk=%v rows=%d", got.Columns, got.PK, got.RowsCount, cols, p.TPK, tbl.RowsCount)
		return
	}
	for i := range p.TPK {
		if got.PK[i] != p.TPK[i] {
			res.Violate("table-meta-differs", "pk reads back as %v, written %v", got.PK, p.TPK)
			return
		}
	}
	if len(got.Blocks) != len(tbl.Blocks) {
		res.Violate("table-blocks-differ", "table written with %d blocks reads back with %d", len(tbl.Blocks), len(got.Blocks))
		return
	}
	for i := range tbl.Blocks {
		if !bytes.Equal(got.Blocks[i], tbl.Blocks[i]) {
			res.Violate("table-blocks-differ", "block sum %d reads back as %x, written %x", i, got.Blocks[i], tbl.Blocks[i])
			return
		}
	}
	if !p.NoIndex {
		if len(got.BlockIndices) != len(tbl.BlockIndices) {
			res.Violate("table-block-indices-differ", "table written with %d block-index sums reads back with %d", len(tbl.BlockIndices), len(got.BlockIndices))
			return
		}
		for i := range tbl.BlockIndices {
			if !bytes.Equal(got.BlockIndices[i], tbl.BlockIndices[i]) {
				res.Violate("table-block-indices-differ", "block-index sum %d reads back as %x, written %x", i, got.BlockIndices[i], tbl.BlockIndices[i])
				return
			}
		}
	}
	var b2 bytes.Buffer
	if _, err := got.WriteTo(&b2); err != nil || !bytes.Equal(b2.Bytes(), b.Bytes()) {
		res.Violate("reencode-differs", "re-encoding the table read back (%d blocks) differs from the written bytes (err=%v)", p.NBlocks, err)
		return
	}
	res.stat("sim_steps", float64(p.NBlocks))
	if p.NBlocks > 1024 {
		res.probe("table_over_1024_blocks", 1)
	}
	res.Nontrivial = p.NBlocks >= 2
}

// execC06Profile round-trips a table profile whose float statistics take awkward values
// (NaN, infinities, negative zero, the extremes) through WriteTo / SaveTableProfile / GetTableProfile.
func execC06Profile(p *C06Plan, res *Result) {
	if len(p.ProfCols) == 0 || len(p.ProfCols) > 16 {
		res.Invalid("profile plan")
		return
	}
	parse := func(s string) (*float64, bool) {
		if s == "" {
			return nil, true
		}
		f, err := strconv.ParseFloat(s, 64)
		if err != nil {
			return nil, false
		}
		return &f, true
	}
	prof := &objects.TableProfile{RowsCount: 3}
	for i, c := range p.ProfCols {
		if len(c) != 5 {
			res.Invalid("profile column")
			return
		}
		col := &objects.ColumnProfile{Name: fmt.Sprintf("c%d", i), NACount: uint32(i), MinStrLen: 1, MaxStrLen: 9, AvgStrLen: 4}
		ptrs := []**float64{&col.Min, &col.Max, &col.Mean, &col.Median, &col.StdDeviation}
		for j, txt := range c {
			f, ok := parse(txt)
			if !ok {
				res.Invalid("float %q", txt)
				return
			}
			*ptrs[j] = f
		}
		prof.Columns = append(prof.Columns, col)
	}
	var b bytes.Buffer
	if _, err := prof.WriteTo(&b); err != nil {
		res.Violate("profile-write-error", "writing a table profile failed: %v", err)
		return
	}
	st := NewStore("P", &World{})
	sum := meowSum([]byte("table"))
	if err := objects.SaveTableProfile(st, sum, b.Bytes()); err != nil {
		res.Invalid("save: %v", err)
		return
	}
	got, err := objects.GetTableProfile(st, sum)
	if err != nil {
		res.Violate("profile-unreadable", "a table profile written without error does not read back: %v", err)
		return
	}
	if len(got.Columns) != len(prof.Columns) || got.RowsCount != prof.RowsCount {
		res.Violate("profile-differs", "profile reads back with %d columns / %d rows, written %d / %d", len(got.Columns), got.RowsCount, len(prof.Columns), prof.RowsCount)
		return
	}
	same := func(a, b *float64) bool {
		if a == nil || b == nil {
			return a == nil && b == nil
		}
		return math.Float64bits(*a) == math.Float64bits(*b) || (math.IsNaN(*a) && math.IsNaN(*b))
	}
	show := func(f *float64) string {
		if f == nil {
			return "absent"
		}
		return strconv.FormatFloat(*f, 'g', -1, 64)
	}
	names := []string{"min", "max", "mean", "median", "stdDeviation"}
	for i, w := range prof.Columns {
		g := got.Columns[i]
		wp := []*float64{w.Min, w.Max, w.Mean, w.Median, w.StdDeviation}
		gp := []*float64{g.Min, g.Max, g.Mean, g.Median, g.StdDeviation}
		for j := range wp {
			if !same(wp[j], gp[j]) {
				res.Violate("profile-differs", "column %d %s written as %s reads back as %s", i, names[j], show(wp[j]), show(gp[j]))
				return
			}
		}
		if g.Name != w.Name || g.NACount != w.NACount || g.MinStrLen != w.MinStrLen || g.MaxStrLen != w.MaxStrLen || g.AvgStrLen != w.AvgStrLen {
			res.Violate("profile-differs", "column %d reads back as %+v, written %+v", i, *g, *w)
			return
		}
	}
	var b2 bytes.Buffer
	if _, err := got.WriteTo(&b2); err != nil || !bytes.Equal(b2.Bytes(), b.Bytes()) {
		res.Violate("reencode-differs", "re-encoding the profile read back differs from the written bytes (err=%v)", err)
		return
	}
	res.probe("profile_awkward_floats", 1)
	res.Nontrivial = true
}
