"""Property -> profiles table for vcheck. quick_n/thorough_n = cases; *_s = wall budget per profile."""

COMPONENTS = {
    "real": ["sorter", "ingest worker pool", "objects encodings", "diff", "merge", "index/hash-set", "ref helpers",
             "refsql on real SQLite (through the sqlite3_sim driver wrapper, hook H3)", "commits queue", "closed-sets finder", "object sender/receiver",
             "packfile/pktline/objline", "client upload-pack/receive-pack sessions", "apiclient.Client", "fetch.Fetch",
             "CLI commands via RootCmd()", "prune", "doctor", "transaction"],
    "stub": ["object store (in-memory simstore instead of Badger; the real Badger store runs in a quarter of the C01cli cases)", "HTTP server glue of the remote (refserver)",
             "network (simnet RoundTripper)", "clock (synctest bubble)", "hash-set file (simfile)", "credentials store (empty)"],
}

ASSUMPTIONS = {
    "*": ["/repo compiled with go1.26.8 (needed for testing/synctest), not the go1.23.5 of the baseline",
          "Badger replaced by an in-memory objects.Store with the same interface semantics (copy on Get/Set, sorted FilterKey)",
          "Go map iteration order inside wrgl is not seeded; oracles are order-independent"],
}

PROPS = {
    "C01": {"level": "exploration", "profiles": [
        {"id": "C01bf", "quick_n": 1500, "thorough_n": 2000000000, "quick_s": 60, "thorough_s": 600, "seed_off": 700000,
         "rule": "branch-file commits: initial `commit --set-file --set-primary-key` then 2..6 steps {edit | touch | nothing} x {-p permutation / other key / none} x {config primaryKey change} x {--no-cache, --all, diff --branch-file first} x ASCII and multi-byte delimiters, file mtime stamped from the simulated clock; after every run the branch table (raw and exported) must be the model of the file as it now is under the key in force, and a run whose columns, key and rows equal what the branch holds must not move it (C02's 'no change' clause); non-trivial = >=3 steps, >=1 unchanged-file run, >=1 key change"},
        {"id": "C01cli", "quick_n": 2000, "thorough_n": 2000000000, "quick_s": 60, "thorough_s": 600, "seed_off": 500000,
         "rule": "same generator through the in-process CLI: `wrgl commit -n N --mem-limit M --delimiter D` then `wrgl export`, parsed back and compared with the model; non-trivial = >=2 rows and (duplicate keys or >255 rows or spill)"},
        {"id": "C01", "quick_n": 6000, "thorough_n": 2000000000, "quick_s": 60, "thorough_s": 900,
         "rule": "generated CSV x delimiter x run size x workers x store-op schedule; non-trivial = >=2 rows and (spill or >=2 blocks or duplicate keys or cell >=255 bytes); distinct by plan hash"},
    ]},
    "C16": {"level": "exploration", "profiles": [
        {"id": "C16", "race": True, "cpu": 4, "hang_s": 30, "quick_n": 240, "thorough_n": 2000000000, "quick_s": 70, "thorough_s": 1500, "timeout": 180,
         "rule": "one OS process per case under -race; synthetic multi-block table x workers 3..16 x run size x schedule seed x 0-2 injected store errors; non-trivial = >=2 effective workers and >=2 blocks (or an injected error fired); distinct by plan hash"},
    ]},
    "C19": {"level": "exploration", "profiles": [
        {"id": "C19", "quick_n": 20000, "thorough_n": 2000000000, "quick_s": 60, "thorough_s": 900,
         "rule": "row multisets x run size 1..inf x removed-column sets x feed path; non-trivial = >=3 rows and (>=1 spill file or removed columns or duplicate keys); distinct by plan hash"},
    ]},
    "C20": {"level": "exploration", "profiles": [
        {"id": "C20", "quick_n": 60000, "thorough_n": 2000000000, "quick_s": 60, "thorough_s": 900,
         "rule": "Add/Flush/Has/Len/reopen sequences (<=200 steps) over a 65-hash space x batch size, simulated file (thorough: also real file); non-trivial = >=2 flushes, >=1 repeat add, and (>=1 reopen or >=10 members); distinct by plan hash"},
    ]},
    "C18": {"level": "exploration", "profiles": [
        {"id": "C18", "quick_n": 100000, "thorough_n": 2000000000, "quick_s": 60, "thorough_s": 900,
         "rule": "valid encoded stream (9 kinds) x read partition (whole, 1-byte, fixed, header-straddling, random cuts, data+EOF); decode whole vs partitioned; non-trivial = partition delivered the stream in >=3 reads; distinct by plan hash"},
    ]},
    "C11": {"level": "exploration", "profiles": [
        {"id": "C11", "quick_n": 10000, "thorough_n": 2000000000, "quick_s": 60, "thorough_s": 900,
         "rule": "commit DAG (<=30 nodes) x timestamp regime; all ordered pairs for IsAncestorOf, full walk from every node, 40 sampled 2-4-tuples for SeekCommonAncestor; non-trivial = >=1 merge commit and timestamps inconsistent with topology; distinct by plan hash"},
    ]},
    "C15": {"level": "exploration", "profiles": [
        {"id": "C15fs", "quick_n": 6000, "thorough_n": 2000000000, "quick_s": 40, "thorough_s": 300, "seed_off": 900000,
         "rule": "file ref store (pkg/ref/fs, unused by the CLI): set / logged set / delete / get / rename / copy / log read / list by one directory-aligned prefix vs the map+logs model; non-trivial = >=6 ops incl. a listing and a rename/copy; distinct by plan hash"},
        {"id": "C15", "quick_n": 6000, "thorough_n": 2000000000, "quick_s": 60, "thorough_s": 900,
         "rule": "op sequences (<=40) over a hostile name alphabet on the real SQL ref store (real SQLite file, reopen, statement-level SQL faults); every return value and a full dump compared with a map+logs model after every step; non-trivial = >=8 ops incl. >=1 prefix listing or bulk op and >=1 rename/copy; distinct by plan hash"},
    ]},
    "C04": {"level": "exploration", "profiles": [
        {"id": "C04", "quick_n": 12000, "thorough_n": 2000000000, "quick_s": 60, "thorough_s": 900,
         "rule": "table pairs from edit scripts (cell edits, deletes at front/back/block edges/nested ranges, adds, identical, empty side, keyless, composite keys, 0-4 blocks), one or two stores; event multiset vs map-by-key model + offsets + self-diff + swap symmetry; non-trivial = >=2 event kinds or >=2 blocks on a side; distinct by plan hash"},
    ]},
    "C08": {"level": "exploration", "profiles": [
        {"id": "C08", "quick_n": 12000, "thorough_n": 2000000000, "quick_s": 60, "thorough_s": 900, "timeout": 120,
         "rule": "server DAG (<=48 commits) x ref tips x wants x multi-round have batches x depth x shallow commits; real finder per round vs graph model (closure, order, reachability, tables, refusal, step budget); non-trivial = >=2 rounds or (>=1 ack and >=1 merge commit listed); distinct by plan hash"},
    ]},
    "C07": {"level": "exploration", "profiles": [
        {"id": "C07", "quick_n": 8000, "thorough_n": 2000000000, "quick_s": 60, "thorough_s": 900, "timeout": 120,
         "rule": "source repo (DAG <=14, shared blocks) x pre-populated destination x tips x table depth x max packfile size x packfile read partition, real sender->packfile->receiver; adversarial object orders; non-trivial = (>=2 packfiles or pre-populated destination) and >=2 commits sent; distinct by plan hash"},
    ]},
    "C05": {"level": "exploration", "profiles": [
        {"id": "C05col", "cpu": 4, "quick_n": 1500, "thorough_n": 2000000000, "quick_s": 60, "thorough_s": 300, "seed_off": 600000, "timeout": 120,
         "rule": "two branches over a keyed base: both add the same new rows and one also adds a column (the new rows keep its value whichever branch is listed first); both add a column of the same name with per-row cells from {empty, v, w} (equal cells resolve, different cells are a reported conflict on that column); every case non-trivial"},
        {"id": "C05cli", "cpu": 4, "quick_n": 600, "thorough_n": 2000000000, "quick_s": 60, "thorough_s": 400, "seed_off": 300000, "timeout": 120,
         "rule": "`wrgl merge main alt` through the in-process CLI: main ahead of / behind / equal to / diverged from alt x fast-forward mode x 1-3 commits on the moving side; main's table (raw and structurally checked) must be X when the other side is the base and the union of disjoint edits when diverged, main must descend from both; a refused merge leaves main alone; every case non-trivial"},
        {"id": "C05", "cpu": 4, "quick_n": 2400, "thorough_n": 2000000000, "quick_s": 60, "thorough_s": 900, "timeout": 120,
         "rule": "constructive 3-way merge scenarios (key anywhere or none, 1-3 blocks, 2-3 branches; disjoint edits, identical branches, branch = base, declared conflicts; column add/remove/move/rename; branch order permuted; hash-set batch; blocks or rows output); non-trivial = >=2 branches with edits or a conflict or a column operation; distinct by plan hash"},
    ]},
    "C02": {"level": "exploration", "profiles": [
        {"id": "C02", "quick_n": 8000, "thorough_n": 2000000000, "quick_s": 60, "thorough_s": 900,
         "rule": "one logical table under two presentations (row permutation x delimiter x run size x workers x schedule x store) => equal ids, no new object on re-ingest; one mutation => different id; CLI: commit --set-file, rewrite permuted, commit => 'hasn't changed' with ref/reflog untouched; non-trivial = >=3 rows and presentations differ in >=2 knobs; distinct by plan hash"},
    ]},
    "C13": {"level": "fault_enumeration", "profiles": [
        {"id": "C13", "cpu": 4, "quick_n": 1200, "thorough_n": 2000000000, "quick_s": 75, "thorough_s": 1500, "timeout": 300,
         "rule": "operation (commit existing/new branch, merge ff / --no-ff / 3-way, prune) via in-process CLI on a generated pre-state; every prefix of the recorded write log (object store + ref store) materialised as a crash state, checked for I1-I4, operation re-run and compared with the uninterrupted run; error and disk-full modes fail every write position; every case is non-trivial (>=2 writes); distinct by plan hash"},
    ]},
    "C14": {"level": "fault_enumeration", "profiles": [
        {"id": "C14", "cpu": 2, "quick_n": 2000, "thorough_n": 2000000000, "quick_s": 75, "thorough_s": 1200, "timeout": 300,
         "rule": "transaction staging 1..4 branches (new/existing) via CLI; `transaction commit|discard` with a crash after every write prefix and a failure at every store write, re-run; sequences commit;commit, commit;discard; non-trivial = >=2 staged branches; distinct by plan hash"},
    ]},
    "C09": {"level": "exploration", "profiles": [
        {"id": "C09two", "cpu": 2, "quick_n": 300, "thorough_n": 2000000000, "quick_s": 60, "thorough_s": 300, "timeout": 300, "seed_off": 900000,
         "rule": "client L and two remotes R, R2 (two reference servers): L takes R's main by pull or fetch at depth 0/1/2, adds 0-2 commits, optionally `fetch tables --missing`, then origin is kept / removed / renamed and main is pushed to R2; a push that moves R2's main must leave every ancestor, table and block there, a refused push leaves R2 without refs, a full copy must be accepted; every case non-trivial"},
        {"id": "C09", "cpu": 2, "quick_n": 800, "thorough_n": 2000000000, "quick_s": 60, "thorough_s": 900, "timeout": 300,
         "rule": "multi-node run (clients L, L2, remote R over simnet + reference server), 6-17 ops, server knobs, client pack size, response chunking; fault-free; non-trivial = >=1 fetch and >=1 push that transferred objects; distinct by plan hash"},
        {"id": "C09f", "cpu": 2, "quick_n": 800, "thorough_n": 2000000000, "quick_s": 60, "thorough_s": 900, "timeout": 300, "seed_off": 700000,
         "rule": "as C09 with 1-4 network faults (request lost, response lost, 500/503, stream error mid-packfile, server restart, delay); non-trivial = >=1 fault fired and >=1 packfile transferred; distinct by plan hash"},
    ]},
    "C10": {"level": "exploration", "profiles": [
        {"id": "C10", "cpu": 2, "quick_n": 1200, "thorough_n": 2000000000, "quick_s": 60, "thorough_s": 900, "timeout": 300,
         "rule": "same multi-node runs with the ref-transition monitor at the ref-store seam and on the receive-pack requests the client sends; non-trivial = >=1 rejected, forced or diverged update; distinct by plan hash"},
    ]},
    "C12": {"level": "exploration", "profiles": [
        {"id": "C12", "quick_n": 10000, "thorough_n": 2000000000, "quick_s": 60, "thorough_s": 900, "timeout": 120,
         "rule": "repository (DAG <=16, tables sharing blocks, refs of every kind incl. open-transaction and remote-tracking refs, shallow commits, deleted refs) pruned twice (library, or CLI prune then gc) vs a reachability model over the raw store; non-trivial = (>=1 commit removed and >=1 kept) or shallow commit present; distinct by plan hash"},
    ]},
    "C17": {"level": "exploration", "profiles": [
        {"id": "C17w", "cpu": 2, "quick_n": 600, "thorough_n": 2000000000, "quick_s": 60, "thorough_s": 600, "timeout": 300, "seed_off": 300000,
         "rule": "wire corruption: multi-node run with 1-4 replies of the remote truncated or bit-flipped in simnet; no panic/hang, success implies the C09 postcondition, I1-I4 on all nodes; non-trivial = >=1 corruption fired; distinct by plan hash"},
        {"id": "C17", "quick_n": 12000, "thorough_n": 2000000000, "quick_s": 60, "thorough_s": 900, "timeout": 120, "mem_gb": 4,
         "rule": "one corruption (bit flip, truncation, inflated 32/16-bit count, wrong label, zeroed run, trailing garbage; raw or inside the s2 frame) of one stored object / packfile / encoded stream, read through every reader that reaches it; every case non-trivial; distinct by plan hash"},
    ]},
    "C06": {"level": "exploration", "profiles": [
        {"id": "C06", "quick_n": 3000, "thorough_n": 2000000000, "quick_s": 60, "thorough_s": 900, "timeout": 120,
         "rule": "field extremes through `wrgl commit` (message/name/email 0..70000 bytes, clock up to 2292 and zone offsets incl. half hours, rows crossing 64 KiB, 1..256 rows) and the packfile length header over varint boundaries up to 64 bits; error at write time with the branch untouched, or read back equal; non-trivial = a field at/over a limit, a clock/zone extreme or a >=30000-byte cell; distinct by plan hash"},
    ]},
    "C03": {"level": "exploration", "profiles": [
        {"id": "C03", "cpu": 4, "quick_n": 4000, "thorough_n": 2000000000, "quick_s": 60, "thorough_s": 900, "timeout": 120,
         "rule": "boundary-size tables (0..766 rows, keyed/keyless, all-empty row) x producers (ingest under seeded schedule, merge commit, wire receipt, doctor resolve of a planted duplicate): structural invariants + doctor.Diagnose reports nothing; non-trivial = >=255 rows or producer != ingest; distinct by plan hash"},
    ]},
}
