"""Self-tests of the machinery (not property checks).

  ./vcheck selftest determinism [--profiles a,b]   same seeds, repeated in separate processes at
                                                   GOMAXPROCS 1/4/16: results must be identical
  ./vcheck selftest seeded [--profiles <dir names>] apply every kept mutant in /verif/seeded to a scratch
                                                   copy of /repo is NOT done here: mutants are applied to
                                                   /repo itself (git apply), the named check is run and
                                                   the tree is restored; prints a catch matrix
"""
import json, os, sys, subprocess, shutil, time, glob

ROOT = os.path.dirname(os.path.abspath(__file__))


# profiles in which even the outcome of a single operation (accepted or refused) may follow Go's map iteration
# order inside wrgl: `wrgl push` hands the remote's refs to the negotiation as haves in map order, and
# ClosedSetsFinder.findCommons stops at the first have it does not know - whether a later, known have counts
# decides whether shallow commits are among the commits to send (push refused) or not (push accepted). Both
# outcomes satisfy the properties; the coverage flag `nontrivial` depends on them and is not compared.
OUTCOME_LOOSE = {"C09", "C09f", "C10"}


def _strip(res, loose):
    r = dict(res)
    r.pop("wall_ms", None)
    if loose:
        d = {"verdict": r.get("verdict"), "class": r.get("class"), "nontrivial": r.get("nontrivial")}
        if r.get("profile") in OUTCOME_LOOSE:
            d.pop("nontrivial")
        return d
    # allocation-dependent numbers and real-time measurements are not part of the event log
    st = dict(r.get("stats") or {})
    for k in list(st):
        if k.endswith("_ms"):
            st.pop(k)
    r["stats"] = st
    return r


# profiles whose trace crosses a Go map-iteration site inside wrgl or whose goroutine interleaving is
# left to the Go runtime (DESIGN 2.6): verdict and class must be identical, the trace may differ
LOOSE = {"C05", "C05cli", "C05col", "C09two", "C01bf", "C09", "C09f", "C10", "C17w", "C13", "C14", "C03", "C16", "C08", "C12", "C06", "C01cli"}


def determinism(vc, a):
    profs = []
    for prop, cfg in vc.PROPS.items():
        for p in cfg["profiles"]:
            if not a.profiles or p["id"] in a.profiles.split(","):
                profs.append(p)
    tmp = vc.scratch_dir()
    bad = 0
    report = {}
    try:
        bins = {False: vc.build(False)}
        if any(p.get("race") for p in profs):
            bins[True] = vc.build(True)
        for p in profs:
            pid = p["id"]
            n = 6 if p.get("race") else 24
            runs = []
            for rep, cpu in enumerate([1, 4, 16, 1]):
                if p.get("race"):
                    evs_all = []
                    for s in range(n):
                        evs, rc, err, race = vc.run_worker(bins[True], pid, "quick", tmp, f"det-{pid}-{rep}-{s}", seeds=f"{4242+s}:1:1", timeout=300, cpu=max(cpu, 2))
                        rv = vc.race_violation(race) if race else None
                        for e in evs:
                            if e.get("ev") == "res":
                                r = e["res"]
                                if rv:
                                    r["verdict"], r["class"] = "violation", rv[0]
                                evs_all.append(r)
                    runs.append(evs_all)
                else:
                    evs, rc, err, race = vc.run_worker(bins[False], pid, "quick", tmp, f"det-{pid}-{rep}", seeds=f"4242:{n}:1", timeout=600, cpu=cpu)
                    runs.append([e["res"] for e in evs if e.get("ev") == "res"])
            loose = pid in LOOSE
            strict_equal = all(json.dumps([_strip(r, False) for r in run], sort_keys=True) == json.dumps([_strip(r, False) for r in runs[0]], sort_keys=True) for run in runs)
            loose_equal = all(json.dumps([_strip(r, True) for r in run], sort_keys=True) == json.dumps([_strip(r, True) for r in runs[0]], sort_keys=True) for run in runs)
            ok = strict_equal or (loose and loose_equal)
            report[pid] = {"cases": len(runs[0]), "runs": len(runs), "byte_identical": strict_equal, "verdicts_identical": loose_equal, "mode": "loose" if loose else "strict"}
            print(f"determinism {pid}: cases={len(runs[0])} x {len(runs)} runs (GOMAXPROCS 1,4,16,1): byte-identical={strict_equal} verdicts-identical={loose_equal} -> {'OK' if ok else 'DIVERGED'}")
            if not ok:
                bad += 1
                for i, (x, y) in enumerate(zip(runs[0], runs[1])):
                    if json.dumps(_strip(x, loose), sort_keys=True) != json.dumps(_strip(y, loose), sort_keys=True):
                        print("  first difference at case", i, "seed", x.get("seed"))
                        print("   ", json.dumps(_strip(x, loose), sort_keys=True)[:600])
                        print("   ", json.dumps(_strip(y, loose), sort_keys=True)[:600])
                        break
    finally:
        shutil.rmtree(tmp, ignore_errors=True)
    os.makedirs(os.path.join(ROOT, "evidence"), exist_ok=True)
    out = os.path.join(ROOT, "evidence", "selftest_determinism.json")
    if a.profiles and os.path.exists(out):
        # a partial run updates the entries it covered
        try:
            merged = json.load(open(out))
        except Exception:
            merged = {}
        merged.update(report)
        report = merged
    with open(out, "w") as f:
        json.dump(report, f, indent=1)
    return 2 if bad else 0


def seeded(vc, a):
    """Run the named checks against every kept mutant. /repo is modified and restored."""
    dirs = sorted(glob.glob(os.path.join(ROOT, "seeded", "*")))
    if a.profiles:
        want = set(a.profiles.split(","))
        dirs = [d for d in dirs if os.path.basename(d) in want]
    st = subprocess.run(["git", "-C", "/repo", "status", "--porcelain"], capture_output=True, text=True).stdout.strip()
    if st:
        print("refusing: /repo has uncommitted changes")
        return 2
    results = {}
    for d in dirs:
        mid = os.path.basename(d)
        meta = json.load(open(os.path.join(d, "meta.json")))
        patch = os.path.join(d, "patch.diff")
        checks = meta.get("checks") or [meta["property"]]
        if meta.get("equivalent_after"):
            print(f"{mid}: skipped - behaviour-preserving on the current tree since fix {meta['equivalent_after']}")
            results[mid] = "equivalent-after-" + meta["equivalent_after"]
            continue
        ap = subprocess.run(["git", "-C", "/repo", "apply", patch], capture_output=True, text=True)
        if ap.returncode != 0:
            print(f"{mid}: patch does not apply: {ap.stderr.strip()[:200]}")
            results[mid] = "patch-stale"
            continue
        # a run against a changed tree must not leave its evidence file behind: evidence/<id>.json describes
        # the unchanged tree only
        saved = {}
        for chk in checks:
            ep = os.path.join(ROOT, "evidence", chk + ".json")
            saved[ep] = open(ep, "rb").read() if os.path.exists(ep) else None
        try:
            caught_by = []
            for chk in checks:
                t0 = time.time()
                p = subprocess.run([os.path.join(ROOT, "vcheck"), chk, "--tier", a.tier, "--seed", str(a.seed)], capture_output=True, text=True, cwd=ROOT)
                hit = p.returncode == 1 and "VIOLATION property=" in p.stdout
                print(f"{mid}: check {chk} -> exit {p.returncode} {'CAUGHT' if hit else 'missed'} in {time.time()-t0:.0f}s")
                if hit:
                    caught_by.append(chk)
                    for line in (p.stdout + p.stderr).splitlines():
                        if line.startswith("VIOLATION") or line.strip().startswith("class="):
                            print("    " + line.strip()[:200])
                elif p.returncode == 2:
                    print("    " + (p.stderr.strip().splitlines() or [""])[-1][:300])
            results[mid] = caught_by
        finally:
            subprocess.run(["git", "-C", "/repo", "checkout", "--", "."], capture_output=True)
            for ep, data in saved.items():
                if data is None:
                    if os.path.exists(ep):
                        os.remove(ep)
                else:
                    with open(ep, "wb") as f:
                        f.write(data)
            for f in glob.glob(os.path.join(ROOT, "replays", "*.json")):
                os.remove(f)
    print(json.dumps(results, indent=1))
    out = os.path.join(ROOT, "evidence", "selftest_seeded.json")
    merged = {}
    if a.profiles and os.path.exists(out):
        # a partial run updates the entries it covered
        try:
            merged = json.load(open(out))
        except Exception:
            merged = {}
    merged.update(results)
    merged = {k: merged[k] for k in sorted(merged) if os.path.isdir(os.path.join(ROOT, "seeded", k))}
    with open(out, "w") as f:
        json.dump(merged, f, indent=1)
    return 0


def main(sub, a):
    import importlib.machinery, importlib.util
    loader = importlib.machinery.SourceFileLoader("vcheck_mod", os.path.join(ROOT, "vcheck"))
    spec = importlib.util.spec_from_loader("vcheck_mod", loader)
    vc = importlib.util.module_from_spec(spec)
    loader.exec_module(vc)
    if sub == "determinism":
        return determinism(vc, a)
    if sub == "seeded":
        return seeded(vc, a)
    print("unknown selftest", sub)
    return 2
