#!/usr/bin/env python3
"""Regenerates the table of DESIGN.md section 17 from seeded/*/meta.json and evidence/selftest_seeded.json,
and writes caught_by back into each meta.json."""
import json, glob, os, re
ROOT = os.path.dirname(os.path.abspath(__file__))
res = json.load(open(os.path.join(ROOT, "evidence", "selftest_seeded.json")))
rows = []
for d in sorted(glob.glob(os.path.join(ROOT, "seeded", "*"))):
    mid = os.path.basename(d)
    mp = os.path.join(d, "meta.json")
    m = json.load(open(mp))
    r = res.get(mid)
    if isinstance(r, list):
        m["caught_by"] = r
        caught = ", ".join(r) if r else "**not caught**"
    elif isinstance(r, str):
        caught = r
        m["caught_by"] = r
    else:
        caught = "(not run)"
    json.dump(m, open(mp, "w"), indent=1)
    clean = lambda s: re.sub(r"\s+", " ", (s or "")).replace("|", "/")
    rows.append(f"| {mid} | {m['property']} | {clean(m.get('summary'))[:150]} | {clean(m.get('needs_to_manifest'))[:140]} | {caught} |")
table = "| id | property | change | needs to manifest | caught by (quick tier) |\n|---|---|---|---|---|\n" + "\n".join(rows) + "\n"
p = os.path.join(ROOT, "DESIGN.md")
s = open(p).read()
i = s.index("| id | property | change | needs to manifest | caught by (quick tier) |")
j = s.index("### 17.1 Misses and what was strengthened")
s = s[:i] + table + "\n" + s[j:]
open(p, "w").write(s)
print(len(rows), "rows")
