#!/usr/bin/env python3
"""Regenerates MANIFEST.json from vprofiles.PROPS and vmanifest_text.py."""
import json, sys, os
sys.path.insert(0, os.path.dirname(os.path.abspath(__file__)))
from vprofiles import PROPS
from vmanifest_text import TEXT, NOT_APPLICABLE, HOOK_COMMITS

ALL = [f"C{i:02d}" for i in range(1, 21)]
checks = []
for pid in ALL:
    if pid not in PROPS or pid not in TEXT:
        continue
    t = TEXT[pid]
    checks.append({
        "property_id": pid,
        "quick_cmd": f"./vcheck {pid} --tier quick",
        "thorough_cmd": f"./vcheck {pid} --tier thorough",
        "evidence_file": f"/verif/evidence/{pid}.json",
        "replay_cmd_template": f"./vcheck {pid} --replay {{path}}",
        "engine": "sim",
        "level_claimed": {"category": PROPS[pid].get("level", "exploration"), "text": t["level_text"], "design_ref": t.get("design_ref", f"DESIGN.md 7.{pid}")},
        "level_note": t["level_note"],
        "technique": t["technique"],
    })
na = [{"property_id": p, "reason": NOT_APPLICABLE.get(p, "check not built yet in this session; see DESIGN.md section 7 for the plan")} for p in ALL if p not in {c["property_id"] for c in checks}]
m = {
    "version": 1,
    "setup_cmd": "./vcheck build",
    "hooks": {
        "guard": "verif (Go build tag)",
        "enable": "go1.26.8 test -c -tags verif from the harness module /verif/sim with `replace github.com/wrgl/wrgl => /repo`",
        "baseline_off_cmd": "cd /repo && go test -mod=mod -vet=off -count=1 -timeout 25m ./...",
        "source_commits": HOOK_COMMITS,
        "add_only": True,
    },
    "engines": [{"name": "sim", "path": "/verif/sim", "serves_properties": [c["property_id"] for c in checks],
                 "kind_free_text": "deterministic simulator in Go (testing/synctest bubbles, parking scheduler at the objects.Store seam, simulated store/ref/net/clock, seeded plans, fault injection, reference models) driven by /verif/vcheck (fan-out, shrinking, replay, evidence)"}],
    "checks": checks,
    "not_applicable": na,
    "notes": "See DESIGN.md. Every check rebuilds the harness binary against /repo's working tree (Go build cache). Exit 2 = infrastructure trouble, never a VIOLATION.",
}
json.dump(m, open(os.path.join(os.path.dirname(os.path.abspath(__file__)), "MANIFEST.json"), "w"), indent=1)
print("wrote MANIFEST.json:", len(checks), "checks,", len(na), "not applicable")
