#!/usr/bin/env python3
"""install_mutant.py <src dir> <id> [extra checks...]: copy a confirmed seeded change into /verif/seeded/<id>/"""
import sys, os, json, shutil
src, mid, extra = sys.argv[1], sys.argv[2], sys.argv[3:]
dst = os.path.join(os.path.dirname(os.path.abspath(__file__)), "seeded", mid)
os.makedirs(dst, exist_ok=True)
for f in os.listdir(src):
    shutil.copy(os.path.join(src, f), os.path.join(dst, f))
m = json.load(open(os.path.join(dst, "meta.json")))
m["id"] = mid
m["checks"] = [m["property"]] + extra
m["confirmed_by_me"] = {"how": "confirm_mutant.sh in a scratch worktree: demo passes on the clean tree, fails with the patch; go build ./... and the full existing suite pass with the patch", "ok": True}
json.dump(m, open(os.path.join(dst, "meta.json"), "w"), indent=1)
print("installed", dst)
